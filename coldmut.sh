#!/bin/bash
# Development helper: run the cold-start driver, one process per run, against /repo + a patch.
# usage: coldmut.sh <patch.diff|-> <runs> [race]
export GOFLAGS=-mod=mod GOPROXY=off GOSUMDB=off GOTOOLCHAIN=local
P=$1; N=${2:-500}
if [ "$P" != "-" ]; then rm -rf /tmp/mrepo && cp -r /repo /tmp/mrepo && rm -rf /tmp/mrepo/.git && (cd /tmp/mrepo && patch -p1 -s < $P) || exit 2; SRC=/tmp/mrepo; else SRC=/repo; fi
RACE=1 /verif/dev.sh $SRC >/dev/null || exit 2
BIN=/tmp/vdev/simrun; B=plain
if [ -n "$3" ]; then BIN=/tmp/vdev/simrun.race; B=race; fi
rm -rf /tmp/vdev/cold; mkdir -p /tmp/vdev/cold
t0=$(date +%s)
seq 0 $((N-1)) | GOMAXPROCS=2 xargs -P 16 -I{} sh -c "GORACE='halt_on_error=0 exitcode=0 log_path=/tmp/vdev/cold/race-{}' $BIN -driver C13cold -indices {} -out /tmp/vdev/cold/o{}.json -build $B >/dev/null 2>&1"
echo "wall $(( $(date +%s) - t0 ))s"
python3 - <<'PY'
import json,glob
from collections import Counter
c=Counter(); n=0; ex=[]
for f in glob.glob('/tmp/vdev/cold/o*.json'):
    r=json.load(open(f)); n+=r['evaluations']
    for x in r['failures'] or []:
        c[(x['oracle'],x['site'])]+=1
        if len(ex)<2: ex.append(x['detail'][:400])
print(n,'runs'); 
for k,v in c.most_common(8): print(v,k)
for e in ex: print('  ',e)
PY
