#!/bin/bash
# Development helper: instrument /repo (or $1) into /tmp/vdev and build simrun there.
set -e
export GOFLAGS=-mod=mod GOPROXY=off GOSUMDB=off GOTOOLCHAIN=local
SRC=${1:-/repo}
D=/tmp/vdev
rm -rf $D/repo; mkdir -p $D
/verif/bin/simgen -src $SRC -dst $D/repo >/dev/null
cat > $D/go.mod <<EOM
module verif.local/sim

go 1.23.0

require (
	github.com/google/jsonschema-go v0.0.0
	verif.local/simrt v0.0.0
)

replace github.com/google/jsonschema-go => $D/repo

replace verif.local/simrt => /verif/simrt
EOM
cp /repo/go.sum $D/go.sum
cd /verif/sim
go build -tags verif,purego -modfile=$D/go.mod -o $D/simrun ./cmd/simrun
if [ -n "$RACE" ]; then go build -race -tags verif,purego -modfile=$D/go.mod -o $D/simrun.race ./cmd/simrun; fi
echo built $D/simrun
