#!/usr/bin/env python3
"""Generates MANIFEST.json from the table below (so it stays valid and consistent)."""
import json, sys
claimed = {
 "C03": ("fault_enumeration", "4 C03",
   "Seeded deterministic simulation of the real resolver and evaluator against a simulated document store (Loader): per generated universe every reachable reference is probed with right and wrong markers, every subset of failing documents and every 'k-th call fails' plan is enumerated, recovery after each failure is checked, and all of it is repeated under 4 map-order schedules. Worlds are sampled (seeded search), fault sets per world are enumerated. Right level because the property quantifies over inputs x configurations x fault sequences of the library's only I/O seam.",
   "Trusts net/url for RFC 3986 resolution and the by-construction model (reference text derived from its target). Cross-document references address document roots; pointer fragments do not cross embedded resources; error text is never compared.",
   "deterministic simulation: simulated Loader/document store with enumerated fault sets + seeded map-order schedules, by-construction reference model"),
 "C14": ("exploration", "4 C14",
   "Seeded deterministic simulation over call histories x map-order schedules x hash seeds/collision masks x processes: the same history of Resolve/Validate/Marshal calls is executed on one schema tree under the canonical schedule and under 5 (quick) or 13 (thorough) further schedules; purity fingerprints after every call, repeatability inside the history, equal result vectors across schedules, and a sample of runs repeated in fresh processes at GOMAXPROCS 1/4/16.",
   "Observable result = verdict, bytes, Resolve ok/err (error text excluded). encoding/json's own map encoding and maps.Clone/Copy are assumed order-insensitive. Sampled, not exhaustive.",
   "deterministic simulation: every map iteration and hash seed behind a seeded seam, histories replayed under many schedules, fingerprints + cross-process digests"),
}
na = {
 "C01": "pure function of (schema, instance): no schedule, fault, clock or history can change the verdict; deciding it needs input generation against an independent validator, a different technique. Its map-order/hash-seed aspect is decided under C14 and C12.",
 "C02": "pure function of (schema, instance, $schema field); the one clause that involves the Loader (remote documents inherit the root's draft) is exercised inside C03's draft-07 worlds and a violation there is reported under C03.",
 "C04": "pure function of (type, value): inferred schema vs encoding/json output; no nondeterminism, fault or history to simulate.",
 "C05": "pure function of a schema value (Marshal/Unmarshal round trip); determinism of the bytes is C19/C14.",
 "C07": "pure function of (schema, instance): annotation flow for unevaluated*; its order-dependence aspect is covered by C14's schedules.",
 "C08": "pure function of (schema, value, Go representation); the 'configurations' are Go types of the input, not run-time configuration.",
 "C09": "pure function of (type, document).",
 "C11": "Equal is a pure binary relation on values.",
 "C17": "pure function of (schema, pointer string); percent-encoded and ~-escaped pointer fragments are generated in C03's worlds as a by-product but not claimed.",
 "C18": "pure function of (schema, decoration, instance).",
 "C20": "pure function of a schema tree; concurrent use of CloneSchemas is exercised under C13.",
}
PENDING = {}
for a in sys.argv[1:]:
    pass
checks = []
for pid, (lvl, ref, text, note, tech) in sorted(claimed.items()):
    checks.append({
        "property_id": pid,
        "quick_cmd": f"./check {pid} quick",
        "thorough_cmd": f"./check {pid} thorough",
        "evidence_file": f"/verif/evidence/{pid}.json",
        "replay_cmd_template": "./check replay {path}",
        "engine": "simrt+sim",
        "level_claimed": {"category": lvl, "text": text, "design_ref": "DESIGN.md §" + ref},
        "level_note": note,
        "technique": tech,
    })
props = [json.loads(l)["id"] for l in open("/verif/properties.jsonl")]
nal = []
for p in props:
    if p in claimed: continue
    if p in na: nal.append({"property_id": p, "reason": na[p]})
    else: nal.append({"property_id": p, "reason": PENDING.get(p, "check under construction in this framework; not claimed until its evidence exists")})
m = {
 "version": 1,
 "setup_cmd": "./setup.sh",
 "hooks": {
   "guard": "verif",
   "enable": "no hook is committed in /repo: every check re-instruments /repo's current working tree into a scratch copy (bin/simgen: map-range, reflect map iteration, maphash seed/Sum64, memo-table Load, lock/Once and statement-level yield seams spliced in at AST offsets; generated files carry //go:build verif) and builds the harness against it with -tags verif,purego",
   "baseline_off_cmd": "cd /repo && GOFLAGS=-mod=mod GOPROXY=off GOSUMDB=off go test -json -vet=off -count=1 -timeout 25m ./...",
   "source_commits": [],
   "add_only": True,
 },
 "engines": [
   {"name": "simrt+sim", "path": "/verif/simrt, /verif/sim, /verif/tools",
    "serves_properties": sorted(claimed),
    "kind_free_text": "deterministic simulation with fault injection: seeded decision streams (world/order/hash/sched/fault), source-level instrumenter, virtual-goroutine scheduler with race detector, simulated Loader, delta-debugging minimiser, replay files"},
 ],
 "checks": checks,
 "not_applicable": nal,
 "notes": "Exit codes of every check: 0 held, 1 VIOLATION (with replay file), 2 instrumentation/build/watchdog/harness trouble. VERIF_SEED selects the batch seed (default 1). Genuine defects found and repaired are listed in known_findings.json ('fixed:' entries) and DESIGN.md §8.",
}

json.dump(m, open("/verif/MANIFEST.json", "w"), indent=1)
print("claimed", sorted(claimed), "n/a", [x["property_id"] for x in nal])
