#!/usr/bin/env python3
"""Generates MANIFEST.json from the table below (so it stays valid and consistent)."""
import json, sys
claimed = {
 "C06": ("exploration", "4 C06",
   "Seeded deterministic simulation of dynamic-scope worlds: two chains of 0-3 schema resources (embedded or Loader-supplied, each with $dynamicAnchor / $anchor / nothing, entered through $ref, fragment-less $dynamicRef or in-place applicators) ending in one $dynamicRef in fragment, resource-relative or pointer form, with resources entered at a subschema, detours through failing branches, permuted chains (same set of resources in two orders) and fan-out roots (both chains in one call); a history of 6-16 (one in twelve: 150-400) Validate calls on ONE Resolved alternates between the chains with right, wrong and missing markers; 4 map-order schedules; a further batch of processes runs the same workload under the other JSONSCHEMAGODEBUG setting. Every verdict is compared with a 6-line outermost-first model and, on disagreement, with a freshly resolved copy to tell a topology error from a scope leak. Decides the histories clause and the Loader-layout clause; the purely topological single-document clause is a by-product.",
   "Model written from 2020-12 core 8.2.3.2 (fallback to the initial target when no resource in scope declares the anchor). Intermediate hops are lexical. Cross-document references address document roots only (per-document $id tables are a documented limitation of the library).",
   "deterministic simulation: simulated Loader layouts x call histories on one Resolved x seeded map-order schedules, by-construction dynamic-scope model"),
 "C10": ("fault_enumeration", "4 C10",
   "Seeded deterministic simulation of Resolve/Validate/ApplyDefaults against an adversarial simulated Loader: per universe, for every call index and every behaviour in {error (alone, or together with an empty schema or with the whole document), (nil,nil), root document again, wrong document, same *Schema pointer again, the right document as a cyclic or heavily shared Go graph}, a document that declares the root's $id, every single failing document, documents that fail the resolver's checks or carry the same key twice, one Schema variable reused for document after document, a 60-deep document chain, and cold process starts whose first library calls are concurrent; each operation runs under recover and a step budget (a hang is detected deterministically by counting yields). The same oracle wraps every operation of the other eight simulated workloads, which this check also runs. Decides the fault-sequence clause; robustness on arbitrary bytes / Schema graphs / Go representations / types is a pure function of the input and is not claimed.",
   "A hang is a step-budget overrun (4*10^5 yields; the largest legitimate operation uses about 10^5). Instances are canonical encoding/json values held through a pointer.",
   "deterministic simulation: enumerated loader fault behaviours per call index + step-budget hang detector + recover around every simulated operation"),
 "C12": ("exploration", "4 C12",
   "Seeded deterministic simulation of the per-call hash seed and of what it stands for: arrays with planted equal-but-not-identical duplicates at every pair of positions, enum and const checks, each validated under 8 (quick) / 24 (thorough) configurations of hash seed x collision mask (64/2/1/0 bits kept, forcing the equality fallback) x map order; verdict = pairwise Equal definition in every configuration, also for 2-5 further instances asked of the same Resolved afterwards and for schemas decoded from JSON next to a twin that its owner edits; plus the hash law Equal(x,y) => same digest under one seed with independent map orders, through the generated hashValue helper. Decides the configuration clause.",
   "Equal is the definition (C11 not claimed). Values behind pointers and typed containers are not generated. purego maphash makes a seed a replayable decision.",
   "deterministic simulation: hash seed and forced collisions as injected faults, map-order schedules; definition oracle via public Equal; hash-law check via generated helper"),
 "C13": ("exploration", "4 C13",
   "Seeded deterministic simulation of k=2..6 virtual goroutines x <=4 operations over shared Resolved values, Schema trees, instances and ForOptions, in a plain build (12000 runs quick) and a -race build (2400 runs quick, spread over 64 short-lived processes): a seeded scheduler decides who runs at every operation boundary and plants pre-emptions inside operations; token hand-off is invisible to the race detector so the library's own unsynchronised accesses are reported; memo-table misses are injected and caches start cold or warm; a third of the runs hammer one shared value with one family of operations under dense pre-emption; yields also sit right after every deferred call, and statements that touch package-level state or call sync / sync/atomic are synchronisation points at which the scheduler pre-empts with a per-run probability. Process restarts are simulated as well: 3000 plain + 400 race-instrumented operating-system processes (quick) execute ONE run each, in which 2-5 goroutines make the first library calls of the process at once and the same calls are then repeated sequentially in the warm process. Oracles: no race report inside the library; every result equals the sequential reference computed on an independently built identical world; a sequential re-run after the join still matches.",
   "Race detector shadow memory is finite; sync.Pool/GC timing and library-spawned goroutines are outside the seam. Loader results are owned by the calling Resolve.",
   "deterministic simulation: seeded virtual-goroutine scheduler (PCT-style pre-emption, pre-emption at synchronisation points) + simulated process restarts (one cold process per run) + Go race detector + sequential-equivalence oracle"),
 "C15": ("exploration", "4 C15",
   "Seeded deterministic simulation of ApplyDefaults as the one stateful operation: histories of 4-10 steps (apply R_j, apply again, client deletes/sets/replaces, client mutates a container an earlier application inserted, switch instance, Validate, schema evolution: the Schema in use or a CloneSchemas copy is edited and resolved again) over 1-3 schemas with defaults at depth <=3 and two instances, repeated under 4 map-order schedules. A relational checker written from the property text decides each application (present values untouched, only non-required declared properties inserted, value = declared default completed legitimately or a container holding >=1 declared default), plus idempotence, schedule independence, and the ValidateDefaults clause against per-subschema validation.",
   "The checker demands legitimacy of what is inserted, not completeness. Canonical JSON instances held in an any through a pointer; typed holders not generated.",
   "deterministic simulation: call/mutation histories x seeded map-order schedules, relational before/after checker as oracle"),
 "C16": ("exploration", "4 C16",
   "Seeded deterministic simulation of For/ForType as a function with package-level state: per run one type (44-type corpus or reflect.StructOf) x options (TypeSchemas, IgnoreInvalidTypes) x a history of repeated calls, calls for other types, client assignments to earlier results, under map-order schedules and, as separate process batches, both JSONSCHEMAGODEBUG settings. Oracles: byte-identical marshaled result on every repetition, no *Schema shared between results or with TypeSchemas, Resolve accepts every result, recursive types error within the step budget, unsupported kinds error or are dropped. Decides the history/configuration/schedule clauses; agreement with encoding/json per tag string is a pure function of the type and not claimed.",
   "Client mutations are field assignments and schema-map insertions only (non-schema slices/maps of TypeSchemas entries are documented as shared).",
   "deterministic simulation: call/mutation histories x process configurations x seeded map-order schedules, pointer-disjointness and byte-equality oracles"),
 "C19": ("exploration", "4 C19",
   "Seeded deterministic simulation of Marshal under every map order: generated Schema values (nested PropertyOrder lists: permutations, subsets, supersets, absent names, duplicates; Extra; draft-07 dependencies union; inferred trees) marshaled >=4 times under the canonical schedule and 5 (quick) / 13 (thorough) further schedules; bytes identical across repetitions and schedules; on the token stream the keys of every properties object are [listed-that-exist in list order] ++ [rest ascending]; any duplicate (or an Extra key that repeats a keyword) makes Marshal fail under every schedule; the caller overwrites the bytes MarshalJSON returned and later outputs must not change.",
   "Expected key order comes from a 10-line model of the property text. Bytes compared per entry point.",
   "deterministic simulation: every map iteration behind a seeded seam, repeated marshaling under many schedules, token-stream order oracle"),
 "C03": ("fault_enumeration", "4 C03",
   "Seeded deterministic simulation of the real resolver and evaluator against a simulated document store (Loader): per generated universe every reachable reference - hop-to-hop through instance descent and in-place (allOf / sibling $ref) to leaves, directly or through chains of $ref-only alias schemas - is probed with right and wrong markers, every subset of failing documents and every 'k-th call fails' plan is enumerated, recovery after each failure is checked, and all of it is repeated under 4 map-order schedules. Worlds are sampled (seeded search), fault sets per world are enumerated. Right level because the property quantifies over inputs x configurations x fault sequences of the library's only I/O seam.",
   "Trusts net/url for RFC 3986 resolution and the by-construction model (reference text derived from its target). Cross-document references address document roots; pointer fragments do not cross embedded resources; error text is never compared.",
   "deterministic simulation: simulated Loader/document store with enumerated fault sets + seeded map-order schedules, by-construction reference model"),
 "C14": ("exploration", "4 C14",
   "Seeded deterministic simulation over call histories x map-order schedules x hash seeds/collision masks x processes: the same history of Resolve/Validate/Marshal calls is executed on one schema tree (keyword-rich, cluster, annotation-centred, wide, Loader universe or dynamic-scope fan-out world; instances partly built from Go pointers) under the canonical schedule and under 5 (quick) or 13 (thorough) further schedules; purity fingerprints, repeatability inside the history (including the sequence of Loader requests), equal result vectors across schedules, and a sample of runs repeated in fresh processes at GOMAXPROCS 1/4/16. The check also runs the C19 driver (Schema values with PropertyOrder), the C15 driver (instances around Validate) and the C12 driver (verdicts under other hash seeds and forced collisions), whose purity / seed-independence oracles report under C14.",
   "Observable result = verdict, bytes, Resolve ok/err (error text excluded). encoding/json's own map encoding and maps.Clone/Copy are assumed order-insensitive. Sampled, not exhaustive.",
   "deterministic simulation: every map iteration and hash seed behind a seeded seam, histories replayed under many schedules, fingerprints + cross-process digests"),
}
na = {
 "C01": "pure function of (schema, instance): no schedule, fault, clock or history can change the verdict; deciding it needs input generation against an independent validator, a different technique. Its map-order/hash-seed aspect is decided under C14 and C12.",
 "C02": "pure function of (schema, instance, $schema field); the one clause that involves the Loader (remote documents inherit the root's draft) is exercised inside C03's draft-07 worlds and a violation there is reported under C03.",
 "C04": "pure function of (type, value): inferred schema vs encoding/json output; no nondeterminism, fault or history to simulate.",
 "C05": "pure function of a schema value (Marshal/Unmarshal round trip); determinism of the bytes is C19/C14.",
 "C07": "pure function of (schema, instance): annotation flow for unevaluated*; its order-dependence aspect is covered by C14's schedules.",
 "C08": "pure function of (schema, value, Go representation); the 'configurations' are Go types of the input, not run-time configuration.",
 "C09": "pure function of (type, document).",
 "C11": "Equal is a pure binary relation on values.",
 "C17": "pure function of (schema, pointer string); percent-encoded and ~-escaped pointer fragments are generated in C03's worlds as a by-product but not claimed.",
 "C18": "pure function of (schema, decoration, instance).",
 "C20": "pure function of a schema tree; concurrent use of CloneSchemas is exercised under C13.",
}
PENDING = {}
for a in sys.argv[1:]:
    pass
checks = []
for pid, (lvl, ref, text, note, tech) in sorted(claimed.items()):
    checks.append({
        "property_id": pid,
        "quick_cmd": f"./check {pid} quick",
        "thorough_cmd": f"./check {pid} thorough",
        "evidence_file": f"/verif/evidence/{pid}.json",
        "replay_cmd_template": "./check replay {path}",
        "engine": "simrt+sim",
        "level_claimed": {"category": lvl, "text": text, "design_ref": "DESIGN.md §" + ref},
        "level_note": note,
        "technique": tech,
    })
props = [json.loads(l)["id"] for l in open("/verif/properties.jsonl")]
nal = []
for p in props:
    if p in claimed: continue
    if p in na: nal.append({"property_id": p, "reason": na[p]})
    else: nal.append({"property_id": p, "reason": PENDING.get(p, "check under construction in this framework; not claimed until its evidence exists")})
m = {
 "version": 1,
 "setup_cmd": "./setup.sh",
 "hooks": {
   "guard": "verif",
   "enable": "no hook is committed in /repo: every check re-instruments /repo's current working tree into a scratch copy (bin/simgen: map-range, reflect map iteration, maphash seed/Sum64, memo-table Load, lock/Once and statement-level yield seams spliced in at AST offsets; generated files carry //go:build verif) and builds the harness against it with -tags verif,purego",
   "baseline_off_cmd": "cd /repo && GOFLAGS=-mod=mod GOPROXY=off GOSUMDB=off go test -json -vet=off -count=1 -timeout 25m ./...",
   "source_commits": [],
   "add_only": True,
 },
 "engines": [
   {"name": "simrt+sim", "path": "/verif/simrt, /verif/sim, /verif/tools",
    "serves_properties": sorted(claimed),
    "kind_free_text": "deterministic simulation with fault injection: seeded decision streams (world/order/hash/sched/fault), source-level instrumenter, virtual-goroutine scheduler with race detector, simulated Loader, delta-debugging minimiser, replay files"},
 ],
 "checks": checks,
 "not_applicable": nal,
 "notes": "Exit codes of every check: 0 held, 1 VIOLATION (with replay file), 2 instrumentation/build/watchdog/harness trouble. VERIF_SEED selects the batch seed (default 1). Genuine defects found and repaired are listed in known_findings.json ('fixed:' entries) and DESIGN.md §8.",
}

json.dump(m, open("/verif/MANIFEST.json", "w"), indent=1)
print("claimed", sorted(claimed), "n/a", [x["property_id"] for x in nal])
