#!/bin/bash
# Development helper: run one driver against /repo + a patch.  usage: mut.sh <patch.diff> <driver> <runs> [race]
export GOFLAGS=-mod=mod GOPROXY=off GOSUMDB=off GOTOOLCHAIN=local
P=$1; D=$2; N=${3:-2000}
rm -rf /tmp/mrepo && cp -r /repo /tmp/mrepo && rm -rf /tmp/mrepo/.git && (cd /tmp/mrepo && patch -p1 -s < $P) || exit 2
if [ -n "$4" ]; then RACE=1 /verif/dev.sh /tmp/mrepo >/dev/null || exit 2; BIN=/tmp/vdev/simrun.race; export GORACE="halt_on_error=0 exitcode=0 log_path=/tmp/vdev/racelog"; rm -f /tmp/vdev/racelog*; else /verif/dev.sh /tmp/mrepo >/dev/null || exit 2; BIN=/tmp/vdev/simrun; fi
cd /tmp/vdev && $BIN -driver $D -from 0 -to $N -out mut.json ${4:+-build race} && python3 - <<'PY'
import json
from collections import Counter
r=json.load(open('/tmp/vdev/mut.json'))
print({k:r[k] for k in ['evaluations','nontrivial','failure_count','wall_s','race_reports']})
c=Counter((f['property'],f['oracle'],f['site']) for f in r['failures'] or [])
for k,v in c.most_common(8): print(v,k)
for f in (r['failures'] or [])[:2]: print(f['index'],f['oracle'],f['site'],'\n   ',f['detail'][:500])
PY
