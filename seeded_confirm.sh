#!/bin/bash
# Confirms a sub-agent's seeded change independently and files it under /verif/seeded/<name>/.
# usage: seeded_confirm.sh <name> <PROPERTY>    (reads /tmp/seeded/<name>/{patch.diff,demo_test.go,notes.md})
set -u
export GOFLAGS=-mod=mod GOPROXY=off GOSUMDB=off GOTOOLCHAIN=local
N=$1; P=$2; SRC=/tmp/seeded/$N; W=/tmp/wt/confirm-$N
git -C /repo worktree remove --force $W 2>/dev/null
git -C /repo worktree add -q --detach $W HEAD || exit 2
res() { echo "$1"; }
cd $W
RACE=""; grep -q -i "race" $SRC/notes.md 2>/dev/null && grep -q "go func\|sync.WaitGroup" $SRC/demo_test.go && RACE="-race"
cp $SRC/demo_test.go jsonschema/zz_seeded_demo_test.go
demo_orig=$(go test $RACE ./jsonschema -run 'Seeded|Seed|ZZ|Zz|zz' -count=1 >/tmp/confirm-$N-orig.log 2>&1 && echo pass || echo FAIL)
if ! git apply $SRC/patch.diff; then echo "$N: patch does not apply"; cd /; git -C /repo worktree remove --force $W; exit 1; fi
build=$(go build ./... >/dev/null 2>&1 && echo ok || echo FAIL)
demo_mut=$(go test $RACE ./jsonschema -run 'Seeded|Seed|ZZ|Zz|zz' -count=1 >/tmp/confirm-$N-mut.log 2>&1 && echo pass || echo FAIL)
rm jsonschema/zz_seeded_demo_test.go
suite=$(go test ./... -count=1 >/tmp/confirm-$N-suite.log 2>&1 && echo pass || echo FAIL)
echo "$N: build=$build suite_with_change=$suite demo_on_original=$demo_orig demo_with_change=$demo_mut race_flag='$RACE'"
cd /; git -C /repo worktree remove --force $W
if [ "$build" = ok ] && [ "$suite" = pass ] && [ "$demo_orig" = pass ] && [ "$demo_mut" = FAIL ]; then
  mkdir -p /verif/seeded/$N
  cp $SRC/patch.diff /verif/seeded/$N/patch.diff
  cp $SRC/demo_test.go /verif/seeded/$N/demo_test.go
  cp $SRC/notes.md /verif/seeded/$N/agent_notes.md
  python3 - "$N" "$P" "$RACE" <<'PY'
import json,sys
n,p,race=sys.argv[1:4]
json.dump({"property":p,"origin":"independent sub-agent given only the property text and a scratch worktree","needs_to_manifest":"see agent_notes.md",
 "confirmed_by":"seeded_confirm.sh in a fresh worktree of /repo HEAD: patch applies, package builds, full suite passes with the change, demonstration test passes on the original and fails with the change"+(" (run with -race)" if race else ""),
 "caught_by":"(filled in after running the check)"},open(f"/verif/seeded/{n}/meta.json","w"),indent=1)
PY
  echo "$N: CONFIRMED -> /verif/seeded/$N"
else
  echo "$N: NOT CONFIRMED (see /tmp/confirm-$N-*.log)"
fi
