#!/bin/bash
# ./check selftest : proves the simulator itself before its verdicts are believed.
#  1. instrumenter soundness: the repository's own test suite passes on the instrumented copy under 9 schedule/fault configurations and -race
#  2. determinism: >=200 runs per driver re-executed in 3 fresh processes (GOMAXPROCS 1/4/16), plain and race builds, digests identical
#  3. reach: every probe that a driver declares must be non-zero in a sample batch
cd "$(dirname "$0")"
export GOFLAGS=-mod=mod GOPROXY=off GOSUMDB=off GOTOOLCHAIN=local
S=$(mktemp -d /tmp/verif-selftest-XXXXXX); trap 'rm -rf "$S"' EXIT
fail=0
bin/simgen -src /repo -dst $S/repo -tests >/dev/null || exit 2
echo "replace verif.local/simrt => $PWD/simrt" >> $S/repo/go.mod
echo "== 1. repository test suite on the instrumented copy"
for cfg in "0" "1" "2:1" "2:2" "3:1" "3:2" "4:5"; do
  r=$(cd $S/repo && SIMRT_SELFTEST=$cfg go test -tags verif,purego -count=1 ./... 2>&1 | tail -1); echo "  order=$cfg: $r"; echo "$r" | grep -q '^ok' || fail=1
done
r=$(cd $S/repo && SIMRT_SELFTEST=3:7 SIMRT_SELFTEST_MASK=1 SIMRT_SELFTEST_MISS=1 go test -tags verif,purego -count=1 ./... 2>&1 | tail -1); echo "  shuffle + 1-bit hashes + memo misses: $r"; echo "$r" | grep -q '^ok' || fail=1
r=$(cd $S/repo && SIMRT_SELFTEST=3:9 SIMRT_SELFTEST_MASK=0 go test -tags verif,purego -count=1 ./... 2>&1 | tail -1); echo "  shuffle + every hash collides: $r"; echo "$r" | grep -q '^ok' || fail=1
r=$(cd $S/repo && SIMRT_SELFTEST=2:3 go test -race -tags verif,purego -count=1 ./... 2>&1 | tail -1); echo "  -race: $r"; echo "$r" | grep -q '^ok' || fail=1
rm -rf $S/repo
bin/simgen -src /repo -dst $S/repo >/dev/null || exit 2
cat > $S/go.mod <<EOM
module verif.local/sim

go 1.23.0

require (
	github.com/google/jsonschema-go v0.0.0
	verif.local/simrt v0.0.0
)

replace github.com/google/jsonschema-go => $S/repo

replace verif.local/simrt => $PWD/simrt
EOM
cp /repo/go.sum $S/go.sum
(cd sim && go build -tags verif,purego -modfile=$S/go.mod -o $S/simrun ./cmd/simrun && go build -race -tags verif,purego -modfile=$S/go.mod -o $S/simrun.race ./cmd/simrun) || exit 2
echo "== 2. determinism (same seed, fresh processes, GOMAXPROCS 1/4/16)"
N=${SELFTEST_RUNS:-200}
for d in C03 C06 C10 C12 C13 C14 C15 C16 C19; do
  for b in plain race; do
    bin=$S/simrun; n=$N; [ $b = race ] && { bin=$S/simrun.race; n=$((N/4)); [ $d != C13 ] && continue; }
    for g in 1 4 16; do
      GOMAXPROCS=$g GORACE="halt_on_error=0 exitcode=0 log_path=$S/race-$d-$g" $bin -driver $d -seed ${VERIF_SEED:-1} -from 0 -to $n -out $S/det-$d-$b-$g.json -build $b &
    done; wait
    python3 - $S $d $b <<'PY' || fail=1
import json,sys
S,d,b=sys.argv[1:4]
ds=[json.load(open(f"{S}/det-{d}-{b}-{g}.json")) for g in (1,4,16)]
ref=ds[0]['digests']; bad=0
for o in ds[1:]:
    for k,v in o['digests'].items():
        if ref[k]!=v: bad+=1
print(f"  {d} {b}: {len(ref)} runs x 3 processes, digest mismatches: {bad}, failures on unchanged tree: {ds[0]['failure_count']}, harness races: {ds[0]['harness_race_reports']}")
sys.exit(1 if bad or ds[0]['harness_race_reports'] else 0)
PY
  done
done
echo "== 3. reach probes"
python3 - $S <<'PY' || fail=1
import json,sys,glob
S=sys.argv[1]
need={'C03':['remote-load','recovery-after-fault','document-requested-under-two-uris','draft07-world','empty-base-uri','ref-cross-document'],
 'C06':['acts-dynamically','chains-disagree-on-target','loader-supplied-resources','fan-out-root','detour-through-failing-branch','resource-entered-at-subschema','static-target-off-path'],
 'C10':['deep-chain'],'C12':['collision-path-compared-unequal-items','hash-law-pair-checked','planted-duplicate'],
 'C13':['cold-caches','memo-miss-injected','world:dynamic','world:universe','world:defaults','world:rich'],
 'C14':['valid-verdict','invalid-verdict','hash-collision-forced','world:universe','world:dynamic-scope'],
 'C15':['defaults-inserted','idempotence-checked','mutate-drop-reapply','resolved-with-ValidateDefaults','all-defaults-valid','some-default-invalid'],
 'C16':['client-mutation','recursive-type','unsupported-kind','with-typeschemas','repeat-after-mutation'],'C19':['duplicate-in-PropertyOrder','inferred-schema']}
bad=0
for d,ps in need.items():
    r=json.load(open(f"{S}/det-{d}-plain-1.json"))
    for p in ps:
        n=sum(v for k,v in r['probes'].items() if k.startswith(p))
        if n==0: print(f"  PROBE STUCK AT ZERO: {d} {p}"); bad=1
print("  all declared probes fired" if not bad else "  some probes never fired")
sys.exit(bad)
PY
[ $fail = 0 ] && echo "SELFTEST OK" || { echo "SELFTEST FAILED"; exit 1; }
