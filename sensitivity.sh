#!/bin/bash
# Sensitivity proof: applies every patch in /verif/mutants (hand-written) and /verif/seeded (from sub-agents)
# to a scratch copy of /repo, runs the quick check of the property it must break, and requires exit 1
# plus a replay file that reproduces. Usage: ./sensitivity.sh [name-substring] ; results in mutants/RESULTS.tsv
cd "$(dirname "$0")"
export GOFLAGS=-mod=mod GOPROXY=off GOSUMDB=off GOTOOLCHAIN=local VERIF_MAX_CLASSES=2 VERIF_MINIMISE_BUDGET=20s
FILTER="$1"; SCALE="${SCALE:-0.25}"
OUT=mutants/RESULTS.tsv
[ -z "$FILTER" ] && : > $OUT
python3 - "$FILTER" <<'PY' > /tmp/verif-mutlist.$$
import json,sys,glob,os
f=sys.argv[1]
for m in json.load(open('/verif/mutants/index.json')):
    if f in m['name']: print(m['name'], m['property'], '/verif/mutants/'+m['name']+'.diff')
for d in sorted(glob.glob('/verif/seeded/*/meta.json')):
    m=json.load(open(d)); n=os.path.basename(os.path.dirname(d))
    if f in 'seeded-'+n: print('seeded-'+n, m.get('detect_with', m['property']), os.path.dirname(d)+'/patch.diff')
PY
while read name prop patch; do
  S=$(mktemp -d /tmp/verif-mut-XXXXXX)
  cp -r /repo/. $S/ && rm -rf $S/.git
  if ! (cd $S && patch -p1 -s < $patch); then echo -e "$name\t$prop\tPATCH-FAILED" | tee -a $OUT; rm -rf $S; continue; fi
  if ! (cd $S && go build ./... 2>/dev/null); then echo -e "$name\t$prop\tDOES-NOT-COMPILE" | tee -a $OUT; rm -rf $S; continue; fi
  suite=$( (cd $S && go test ./... -count=1 >/dev/null 2>&1) && echo suite-passes || echo suite-FAILS)
  t0=$(date +%s)
  mkdir -p $S.out; out=$(VERIF_REPO=$S VERIF_OUT=$S.out ./check $prop quick -scale $SCALE 2>&1); code=$?
  t1=$(date +%s)
  viol=$(echo "$out" | grep -c '^VIOLATION')
  first=$(echo "$out" | grep -A1 '^VIOLATION' | sed -n 2p | cut -c1-110)
  rep=$(echo "$out" | grep '^VIOLATION' | head -1 | sed 's/.*replay=//')
  repro="-"
  if [ $code -eq 1 ] && [ -f "$rep" ]; then VERIF_REPO=$S VERIF_OUT=$S.out ./check replay "$rep" >/dev/null 2>&1; [ $? -eq 1 ] && repro=replay-reproduces || repro=REPLAY-DOES-NOT-REPRODUCE; fi
  echo -e "$name\t$prop\texit=$code\tviolations=$viol\t$suite\t$repro\t$((t1-t0))s\t$first" | tee -a $OUT
  rm -rf $S $S.out
done < /tmp/verif-mutlist.$$
rm -f /tmp/verif-mutlist.$$ || true
