#!/bin/bash
# Builds the framework from files on disk only (offline) and warms the build cache.
set -e
cd "$(dirname "$0")"
export GOFLAGS=-mod=mod GOPROXY=off GOSUMDB=off GOTOOLCHAIN=local
mkdir -p bin evidence replays
(cd tools && go build -o ../bin/simgen ./cmd/simgen && go build -o ../bin/vcheck ./cmd/vcheck)
# Warm the build cache (plain and race-instrumented standard library + harness).
S=$(mktemp -d /tmp/verif-setup-XXXXXX)
trap 'rm -rf "$S"' EXIT
bin/simgen -src /repo -dst "$S/repo" >/dev/null
cat > "$S/go.mod" <<EOM
module verif.local/sim

go 1.23.0

require (
	github.com/google/jsonschema-go v0.0.0
	verif.local/simrt v0.0.0
)

replace github.com/google/jsonschema-go => $S/repo

replace verif.local/simrt => $PWD/simrt
EOM
cp /repo/go.sum "$S/go.sum" 2>/dev/null || true
(cd sim && go build -tags verif,purego -modfile="$S/go.mod" -o "$S/simrun" ./cmd/simrun && go build -race -tags verif,purego -modfile="$S/go.mod" -o "$S/simrun.race" ./cmd/simrun)
echo "setup ok"
