package sim

import (
	"encoding/json"
	"fmt"
	"net/url"
	"regexp"
	"sort"
	"strings"

	"github.com/google/jsonschema-go/jsonschema"
	"verif.local/simrt"
)

func init() {
	Drivers["C03"] = driveC03
	Levels["C03"] = "fault_enumeration"
	Rules["C03"] = "one run = one generated document universe (1-5 documents on 2 hosts + urn ids, embedded resources with absolute/relative/urn $id, anchors scoped per resource, every $ref built from its intended target in a randomly chosen syntactic form; 2020-12 or draft-07; BaseURI empty or absolute; Loader nil when nothing remote is needed) checked under 4 map-order schedules. Enumerated per world and schedule: every probe path covering each reachable reference (right marker accepted, two wrong markers rejected); every subset of failing remote documents (<=4 remote docs; else singletons, pairs and 8 random sets); 'fail exactly the k-th loader call' for every k; recovery with a healthy loader after each failure; a third of the failing plans return the error together with a non-nil (empty or complete) schema; hops refer in place to leaves directly or through chains of $ref-only alias subschemas, possibly in other documents; one planted dangling reference in 1/5 of the worlds; one world in six is relocatable (one host, relative ids and references only) and is additionally resolved - same root tree, caching Loader that hands out the same *Schema values - under its own host, under a mirror host where one document has other markers, and under its own host again. Non-trivial = the world must load >=1 remote document and some probe crosses a document or resource boundary. Distinct = hash(universe text, BaseURI) x order-vector hash."
}

var (
	reQuoted = regexp.MustCompile(`"[^"]*"|'[^']*'`)
	reURI    = regexp.MustCompile(`[a-z]+:[^\s"',)]+`)
	reNum    = regexp.MustCompile(`[0-9]+`)
	reAnchor = regexp.MustCompile(`#[A-Za-z0-9_/~%$.-]*`)
)

// errSig reduces an error to a stable signature: the innermost message with
// names, URIs and numbers removed. Used only to classify failures.
func errSig(err error) string {
	if err == nil {
		return "nil"
	}
	s := err.Error()
	if i := strings.IndexByte(s, '\n'); i >= 0 {
		s = s[:i]
	}
	s = reQuoted.ReplaceAllString(s, "_")
	s = reURI.ReplaceAllString(s, "_")
	s = reAnchor.ReplaceAllString(s, "_")
	s = reNum.ReplaceAllString(s, "N")
	parts := strings.Split(s, ": ")
	if len(parts) > 2 {
		parts = parts[len(parts)-2:]
	}
	s = strings.Join(parts, ": ")
	if len(s) > 70 {
		s = s[:70]
	}
	return s
}

type worldCheck struct {
	c       *Ctx
	u       *Universe
	probes  []Probe
	closure map[int]bool
	cross   bool
}

func driveC03(c *Ctx) {
	draft7 := c.W(4) == 0
	dangling := c.W(5) == 0
	reloc := !dangling && c.W(6) == 0
	defaults := !dangling && c.W(3) == 0
	u := GenUniverse(c, UniOpts{Draft7: draft7, Dangling: dangling, Relocatable: reloc, Defaults: defaults, BadDefault: defaults && c.W(4) == 0})
	desc := JSON(u.Describe())
	c.In("universe %s", desc)
	c.Distinct("%s", desc)
	w := &worldCheck{c: c, u: u, probes: u.Probes(c, 3), closure: u.Closure()}
	for _, p := range w.probes {
		n := u.Docs[0].Root
		for _, s := range p.Path {
			t := n.Next[s].To
			if t.Doc != n.Doc || t.Res != n.Res {
				w.cross = true
			}
			n = t
		}
	}
	// Fault plans are drawn once per world so that every schedule sees the same ones.
	plans := w.faultPlans()
	nilLoader := len(w.closure) == 1 && !dangling && c.W(2) == 0
	c.In("nilLoader=%v plans=%d", nilLoader, len(plans))
	scheds := []schedule{{simrt.OrderSorted, 64, 0}, {simrt.OrderReversed, 64, 1}, {simrt.OrderPerVisit, 64, 2}, {simrt.OrderShuffle, 64, 3}}
	for si, sch := range scheds {
		sch.apply(c)
		c.logf("schedule %d: %s", si, sch)
		w.check(si, plans, nilLoader)
	}
	if reloc {
		simrt.SetOrderPolicy(simrt.OrderSorted)
		w.mirror()
	}
	st := simrt.GetStats()
	c.Distinct("%x", st.OrderHash)
	c.Nontrivial = len(w.closure) > 1 && w.cross
	if dangling {
		c.Probe("dangling-world:" + u.Dangle.Dangle)
	}
	if draft7 {
		c.Probe("draft07-world")
	}
	if u.BaseURI == "" {
		c.Probe("empty-base-uri")
	}
	if u.HasDefaults && u.BadDefaultAt == nil {
		c.Probe("resolved-with-ValidateDefaults")
	}
	for _, n := range u.Nodes {
		for _, e := range []*Edge{n.Next[0], n.Next[1], n.InPlace} {
			if e != nil && e.To != nil {
				c.Probe("ref-form:" + e.Form)
				if e.To.Doc != n.Doc {
					c.Probe("ref-cross-document")
				}
			}
		}
	}
	if c.logOn {
		c.Sample = map[string]any{"universe": u.Describe(), "probes": fmt.Sprint(w.probes), "must_load": sortedDocSet(w.closure), "fault_plans": len(plans)}
	}
}

func sortedDocSet(m map[int]bool) []int {
	var out []int
	for k, v := range m {
		if v {
			out = append(out, k)
		}
	}
	sort.Ints(out)
	return out
}

func (w *worldCheck) faultPlans() []*FaultPlan {
	c, u := w.c, w.u
	if u.Dangle != nil || len(u.Docs) == 1 {
		return nil
	}
	var plans []*FaultPlan
	remote := len(u.Docs) - 1
	add := func(mask int) {
		p := &FaultPlan{FailDocs: map[int]bool{}}
		for i := 0; i < remote; i++ {
			if mask&(1<<i) != 0 {
				p.FailDocs[i+1] = true
			}
		}
		plans = append(plans, p)
	}
	if remote <= 4 {
		for m := 1; m < 1<<remote; m++ {
			add(m)
		}
	}
	for k := 1; k <= len(w.closure); k++ { // healthy runs make at most ~len(closure)+aliases calls
		plans = append(plans, &FaultPlan{FailCall: k})
	}
	plans = append(plans, &FaultPlan{FailCall: len(u.Docs)*2 + 1}) // never fires
	for _, p := range plans {
		if c.W(3) == 0 {
			p.Partial = 1 + c.W(2) // the error comes with a non-nil schema
		}
	}
	return plans
}

func (w *worldCheck) freshRoot() (*jsonschema.Schema, bool) {
	var s jsonschema.Schema
	var err error
	r := Op(func() { err = json.Unmarshal([]byte(w.u.Docs[0].Text), &s) })
	w.c.CheckOp("Unmarshal(root document)", r)
	if r.Panicked || err != nil {
		if err != nil {
			w.c.Fail("C03/reach", "unmarshal:"+errSig(err), "generated root document does not unmarshal: %v", err)
		}
		return nil, false
	}
	return &s, true
}

func (w *worldCheck) resolve(root *jsonschema.Schema, plan *FaultPlan, nilLoader bool) (*jsonschema.Resolved, error, *LoaderLog, OpResult) {
	log := &LoaderLog{}
	opts := &jsonschema.ResolveOptions{BaseURI: w.u.BaseURI, ValidateDefaults: w.u.HasDefaults && w.u.BadDefaultAt == nil}
	if !nilLoader {
		opts.Loader = w.u.LoaderFor(w.c, plan, log)
	}
	var res *jsonschema.Resolved
	var err error
	r := Op(func() { res, err = root.Resolve(opts) })
	w.c.CheckOp("Resolve", r)
	for _, f := range log.Fired {
		w.c.Fault("loader:" + f)
	}
	return res, err, log, r
}

func (w *worldCheck) reach(res *jsonschema.Resolved, si int, limit int, ctxt string) {
	c, u := w.c, w.u
	for pi, p := range w.probes {
		if limit > 0 && pi >= limit {
			break
		}
		form := "root"
		if len(p.Path) > 0 {
			n := u.Docs[0].Root
			for _, s := range p.Path[:len(p.Path)-1] {
				n = n.Next[s].To
			}
			form = n.Next[p.Path[len(p.Path)-1]].Form
		}
		other := u.Nodes[(p.Target.ID+1+pi)%len(u.Nodes)].Marker
		for k, m := range []string{p.Target.Marker, other, "ZZ"} {
			if k == 1 && m == p.Target.Marker {
				continue
			}
			inst := p.Instance(m)
			var err error
			r := Op(func() { err = res.Validate(inst) })
			c.CheckOp("Validate(probe)", r)
			if r.Panicked {
				c.Fail("C03/reach", "validate-"+r.String(), "schedule %d %s: Validate of probe %s did not return normally: %s", si, ctxt, p, r.Value)
				return
			}
			want := k == 0
			if (err == nil) != want {
				c.Fail("C03/reach", form, "schedule %d %s: probe %s with marker %s: valid=%v, the designated hop has marker %s (error: %v)", si, ctxt, p, m, err == nil, p.Target.Marker, err)
				return
			}
		}
	}
	// in-place references: the designated leaf applies at the hop's own location, another leaf does not
	for pi, ip := range w.u.InPlaceProbes(w.probes) {
		if limit > 0 && pi >= limit {
			break
		}
		for k, key := range []string{ip.Applied.leafKey(), ip.Other} {
			inst := ip.Instance(key)
			var err error
			r := Op(func() { err = res.Validate(inst) })
			c.CheckOp("Validate(in-place probe)", r)
			if r.Panicked {
				c.Fail("C03/reach", "validate-"+r.String(), "schedule %d %s: Validate of an in-place probe did not return normally: %s", si, ctxt, r.Value)
				return
			}
			wantValid := k == 1
			if (err == nil) != wantValid {
				c.Fail("C03/reach", "in-place:"+ip.Holder.InPlace.Form, "schedule %d %s: hop %s has the in-place reference %q to leaf %s; instance %s: valid=%v, want %v (error: %v)",
					si, ctxt, ip.Holder.Marker, ip.Holder.InPlace.Text, ip.Applied.leafKey(), JSON(inst), err == nil, wantValid, err)
				return
			}
		}
		c.Probe("in-place-reference-probed")
	}
	if si == 0 && ctxt == "healthy" {
		c.Out("reach ok over %d probes", len(w.probes))
	}
}

func (w *worldCheck) check(si int, plans []*FaultPlan, nilLoader bool) {
	c, u := w.c, w.u
	root, ok := w.freshRoot()
	if !ok {
		return
	}
	rootFP := Fingerprint(root)
	if bad := u.BadDefaultAt; bad != nil {
		// the root document declares one default that does not validate against its subschema
		var verr error
		opts := &jsonschema.ResolveOptions{BaseURI: u.BaseURI, ValidateDefaults: true}
		if !nilLoader {
			opts.Loader = u.LoaderFor(c, nil, &LoaderLog{})
		}
		r := Op(func() { _, verr = root.Resolve(opts) })
		c.CheckOp("Resolve(ValidateDefaults)", r)
		if !r.Panicked && verr == nil {
			c.Fail("C15/validate-defaults", "remote-universe", "schedule %d: Resolve(ValidateDefaults) succeeded although hop %s of the root document declares the default %s", si, bad.Marker, JSON(bad.Default))
		}
		c.Probe("bad-default-in-root-document")
	}
	res, err, log, r := w.resolve(root, nil, nilLoader)
	if si == 0 {
		c.Out("healthy resolve: %v err=%v loads=%v", r, err != nil, log.URIs)
	}
	if r.Panicked {
		if u.Dangle != nil {
			c.Fail("C03/dangling", "panic:"+r.Where, "schedule %d: Resolve %s on a reference that designates nothing (%q): %s", si, r, u.Dangle.Text, r.Value)
		} else {
			c.Fail("C03/reach", "resolve-"+r.String(), "schedule %d: Resolve of a well-formed universe did not return normally: %s", si, r.Value)
		}
		return
	}
	if u.Dangle != nil {
		if err == nil {
			c.Fail("C03/dangling", u.Dangle.Dangle, "schedule %d: Resolve succeeded although %s.%s has $ref %q which designates nothing", si, u.Dangle.From.Marker, slotName[u.Dangle.Slot], u.Dangle.Text)
		}
		return
	}
	if err != nil {
		c.Fail("C03/reach", "resolve-error:"+errSig(err), "schedule %d: Resolve of a well-formed universe failed: %v", si, err)
		return
	}
	w.loaderHistory(log, si, "healthy")
	if fp := Fingerprint(root); fp != rootFP {
		c.Fail("C14/purity-schema", "Resolve", "schedule %d: Resolve changed the root schema tree", si)
		rootFP = fp
	}
	w.reach(res, si, 0, "healthy")
	healthyCalls := len(log.URIs)
	for pi, plan := range plans {
		if si >= 2 && (pi+si)%4 != 0 {
			continue // schedules 2 and 3 re-run a quarter of the plans
		}
		res2, err2, log2, r2 := w.resolve(root, plan, false)
		if r2.Panicked {
			c.Fail("C03/loader-fault", "resolve-"+r2.String(), "schedule %d: Resolve under a loader fault plan did not return normally: %s", si, r2.Value)
			continue
		}
		var wantErr bool
		var what string
		if plan.FailCall > 0 {
			wantErr = plan.FailCall <= healthyCalls
			what = fmt.Sprintf("fail call #%d of %d", plan.FailCall, healthyCalls)
		} else {
			for d := range plan.FailDocs {
				if w.closure[d] {
					wantErr = true
				}
			}
			what = fmt.Sprintf("failing documents %v (must-load %v)", sortedDocSet(plan.FailDocs), sortedDocSet(w.closure))
		}
		if si == 0 {
			c.Out("plan %d %s: err=%v", pi, what, err2 != nil)
		}
		if wantErr && err2 == nil {
			c.Fail("C03/loader-fault", "error-swallowed", "schedule %d: %s: Resolve succeeded; loader log %v fired %v", si, what, log2.URIs, log2.Fired)
			continue
		}
		if !wantErr && err2 != nil {
			c.Fail("C03/loader-fault", "spurious-error:"+errSig(err2), "schedule %d: %s: Resolve failed: %v", si, what, err2)
			continue
		}
		w.loaderHistory(log2, si, what)
		if fp := Fingerprint(root); fp != rootFP {
			c.Fail("C14/purity-schema", "Resolve", "schedule %d: a Resolve with %s changed the root schema tree", si, what)
			rootFP = fp
		}
		if err2 == nil {
			w.reach(res2, si, 2, what)
			continue
		}
		// recovery: once faults stop, one call suffices
		res3, err3, _, r3 := w.resolve(root, nil, false)
		if r3.Panicked {
			c.Fail("C03/recovery", "resolve-"+r3.String(), "schedule %d: Resolve with a healthy loader after a failed one did not return normally: %s", si, r3.Value)
			continue
		}
		if err3 != nil {
			c.Fail("C03/recovery", errSig(err3), "schedule %d: after a failed Resolve (%s) a Resolve with a healthy loader failed: %v", si, what, err3)
			continue
		}
		c.Probe("recovery-after-fault")
		w.reach(res3, si, 2, "recovery after "+what)
	}
	// "The same schema may be resolved multiple times": the Resolved obtained first must be
	// unaffected by all the later Resolve calls on the same tree (other loaders, failures, fresh documents).
	if len(plans) > 0 {
		w.reach(res, si, 3, "the first Resolved, after later Resolve calls on the same tree")
	}
}

func (w *worldCheck) loaderHistory(log *LoaderLog, si int, ctxt string) {
	c := w.c
	seen := map[string]bool{}
	for i, s := range log.URIs {
		if j := strings.IndexByte(s, '#'); j >= 0 {
			s = s[:j]
		}
		if seen[s] {
			c.Fail("C03/at-most-once", "duplicate-request", "schedule %d %s: the loader was asked twice for %s (requests: %v)", si, ctxt, s, log.URIs)
			return
		}
		seen[s] = true
		if d := log.Docs[i]; d >= 0 && !w.closure[d] {
			c.Fail("C03/loader-history", "unexpected-load", "schedule %d %s: document %d (%s) was requested but nothing that must be loaded refers to it", si, ctxt, d, s)
			return
		}
		if log.Docs[i] < 0 {
			c.Fail("C03/loader-history", "unknown-uri", "schedule %d %s: the loader was asked for %s, which no reference designates", si, ctxt, s)
			return
		}
	}
	if len(log.URIs) > 0 {
		c.Probe("remote-load")
	}
	if len(log.URIs) > len(sortedDocSet(w.closure))-1 {
		c.Probe("document-requested-under-two-uris")
	}
}

func init() {
	Assumptions["C03"] = append([]string{
		"the expected target of every reference is known by construction (the reference text is derived from the target and validated with net/url); the 60-line closure model assumes eager resolution, which is what the property states",
		"cross-document references address a document's root resource (by retrieval URI or absolute canonical $id) plus a fragment; JSON-Pointer fragments do not cross embedded-resource boundaries; roots without an absolute base use fragment-only references (everything else is undefined by the specification)",
		"error text is never compared",
	}, CommonAssumptions...)
}

// mirror: the same relocatable universe is also served from a second host, where ONE document
// has other markers; the Loader is a caching one (it hands out the same *Schema value every time
// a document is asked for, under either host). The same root tree is resolved with the first
// host's BaseURI, then with the mirror's, then with the first again: every reference must reach
// the document of the host it was resolved under.
func (w *worldCheck) mirror() {
	c, u := w.c, w.u
	const hostA, hostB = "http://a.test/", "http://m.test/"
	var altered *Doc
	for _, d := range u.Docs[1:] {
		if w.closure[d.Index] && !d.Root.Leaf {
			altered = d
		}
	}
	if altered == nil {
		return
	}
	oldP, newP := fmt.Sprintf("\"M%d_", altered.Index), fmt.Sprintf("\"X%d_", altered.Index)
	alteredText := strings.ReplaceAll(altered.Text, oldP, newP)
	cache := map[string]*jsonschema.Schema{}
	loader := func(uri *url.URL) (*jsonschema.Schema, error) {
		s := uri.String()
		host := hostA
		if strings.HasPrefix(s, hostB) {
			host = hostB
			s = hostA + strings.TrimPrefix(s, hostB)
		}
		for _, d := range u.Docs {
			if d.URI != s {
				continue
			}
			key, text := fmt.Sprint(d.Index), d.Text
			if d == altered && host == hostB {
				key, text = key+"@mirror", alteredText
			}
			if p := cache[key]; p != nil {
				return p, nil // a caching loader: the same value again
			}
			var sch jsonschema.Schema
			if err := json.Unmarshal([]byte(text), &sch); err != nil {
				return nil, err
			}
			cache[key] = &sch
			return &sch, nil
		}
		return nil, fmt.Errorf("simulated store: no document at %s", uri)
	}
	root, ok := w.freshRoot()
	if !ok {
		return
	}
	var first *jsonschema.Resolved
	for pass, host := range []string{hostA, hostB, hostA, "first-again"} {
		if host == "first-again" {
			// the Resolved of pass 0 must still work after the same tree has been resolved again
			for _, p := range w.probes {
				inst := p.Instance(p.Target.Marker)
				var verr error
				r := Op(func() { verr = first.Validate(inst) })
				c.CheckOp("Validate(first Resolved after later Resolves)", r)
				if r.Panicked || verr != nil {
					c.Fail("C03/reach", "earlier-resolved-damaged", "the Resolved obtained first no longer reaches %s after the same schema tree was resolved again under another BaseURI: %v %v", p, r, verr)
					return
				}
			}
			break
		}
		base := host + strings.TrimPrefix(u.BaseURI, hostA)
		var res *jsonschema.Resolved
		var err error
		r := Op(func() { res, err = root.Resolve(&jsonschema.ResolveOptions{BaseURI: base, Loader: loader}) })
		c.CheckOp("Resolve (mirror pass)", r)
		if r.Panicked || err != nil {
			c.Fail("C03/reach", "mirror-resolve", "pass %d: Resolve of a relocatable universe under BaseURI %s with a caching loader failed: %v %v", pass, base, r, err)
			return
		}
		if pass == 0 {
			first = res
		}
		for _, p := range w.probes {
			want := p.Target.Marker
			if p.Target.Doc == altered && host == hostB {
				want = "X" + want[1:]
			}
			for k, m := range []string{want, "ZZ"} {
				inst := p.Instance(m)
				var verr error
				r := Op(func() { verr = res.Validate(inst) })
				c.CheckOp("Validate(mirror probe)", r)
				if r.Panicked {
					return
				}
				if (verr == nil) != (k == 0) {
					c.Fail("C03/reach", "mirror", "pass %d (BaseURI %s, caching loader, same root tree resolved before under the other host): probe %s with marker %s: valid=%v; the document of THIS host has marker %s (error: %v)", pass, base, p, m, verr == nil, want, verr)
					return
				}
			}
		}
	}
	c.Probe("mirror-universe-checked")
}
