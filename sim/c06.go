package sim

import (
	"encoding/json"
	"fmt"
	"net/url"
	"strings"

	"github.com/google/jsonschema-go/jsonschema"
	"verif.local/simrt"
)

func init() {
	Drivers["C06"] = driveC06
	Levels["C06"] = "exploration"
	Rules["C06"] = "one run = one dynamic-scope world: a root document whose if/then/else sends instances down one of two chains of 0-3 schema resources each (embedded in the root document with relative/absolute $id, or separate Loader documents), every resource with $dynamicAnchor a, $anchor a or neither, hops by $ref / fragment-less $dynamicRef / allOf / anyOf / oneOf / if-then wrappers, optionally with a detour into and out of another anchor-declaring resource through a failing anyOf branch, each resource entered at its root or at a subschema named by pointer or plain anchor (so that its root is never evaluated), both chains ending in one resource whose $dynamicRef is in fragment (#a), resource-relative (other.json#a, target on or off the path) or pointer (#/$defs/a) form; then a history of 6-16 (one in twelve: 150-400) Validate calls on ONE Resolved alternating between the chains, with right, wrong and absent markers and non-object instances, under 4 map-order schedules; in a third of the worlds the final references sit below properties/k, and a third of the fan-out worlds with disjoint chains apply both chains to ONE object; anchor names are drawn from an open-ended space (a, b, a17, b203 ...); the world is also resolved with the store failing, in turn, for every document a healthy Resolve requests (Resolve must fail). Oracles: every verdict equals the 6-line outermost-first model and the verdict of the same call on a freshly resolved copy. Non-trivial = some call's dynamic target differs from its static target AND the previous call took the other chain. Distinct = hash(world text, history) x order-vector hash."
	Assumptions["C06"] = append([]string{
		"model: if the statically resolved target of the $dynamicRef was named by a plain-name fragment and carries $dynamicAnchor of that name, the target is the a-subschema of the first resource on the evaluation path (root first) that declares $dynamicAnchor a, or the static target if there is none; otherwise the static target (2020-12 core section 8.2.3.2)",
		"intermediate hops are lexical ($ref, or $dynamicRef without fragment); the purely topological single-document clause is a by-product, what is claimed is the history and Loader-layout clause",
	}, CommonAssumptions...)
}

type dynRes struct {
	Idx    int
	Name   string
	Remote bool
	URI    string // absolute base
	IDText string // $id as written (embedded) or "" (remote, identified by retrieval URI)
	Anchor [2]int // per anchor name (a, b): 0 none, 1 $anchor, 2 $dynamicAnchor
	Marker string
	Hop    string // how it reaches the next resource
	Next   *dynRes
	Body   map[string]any
	Entry  string // "" = entered at its root; "#/$defs/entry" or "#ent" = entered at a subschema, the root is never evaluated
}

type dynWorld struct {
	Root     *dynRes
	Res      []*dynRes // all resources except root
	Paths    [2][]*dynRes
	Final    *dynRes
	Names    int       // 1: only anchor name a is used; 2: the final resource has a $dynamicRef for a and one for b
	RefForm  [2]string // "frag", "resource", "pointer"
	RefText  [2]string
	Static   [2]*dynRes
	Dynamic  [2]bool // the final reference acts dynamically
	RootDoc  string
	Docs     map[string]string // remote documents by URI
	Fanout   bool              // the root sends property A down chain A and property B down chain B in ONE call
	Descend  bool              // the final $dynamicRef(s) sit below properties/k: the markers are looked for in the member k of the instance, a container of its own
	SameInst bool              // fan-out over ONE object: allOf [chain A, chain B] applied to the same instance, so the final resource meets the same container twice, under two dynamic scopes
	Permuted bool              // chain B enters the same resources as chain A in another order
	Detour   *dynRes           // a resource (declaring the dynamic anchor) that is entered and left again, through a failing anyOf branch, before the chain continues
	DetAt    *dynRes           // the resource (or root) whose hop makes the detour
}

const dynRootURI = "http://d.test/s/root.json"

var anchorNames = [2]string{"a", "b"}
var markerProps = [2]string{"t", "u"}

// marker of resource r for anchor name ni.
func (r *dynRes) marker(ni int) string {
	if ni == 0 {
		return r.Marker
	}
	return "U" + r.Marker[1:]
}

func markerSchemaN(r *dynRes, ni int) map[string]any {
	m := map[string]any{"properties": map[string]any{markerProps[ni]: map[string]any{"const": r.marker(ni)}}}
	switch r.Anchor[ni] {
	case 1:
		m["$anchor"] = anchorNames[ni]
	case 2:
		m["$dynamicAnchor"] = anchorNames[ni]
	}
	return m
}

// markerDefs renders $defs/a (and $defs/b in two-name worlds) of a resource.
func (w *dynWorld) markerDefs(r *dynRes) map[string]any {
	d := map[string]any{}
	for ni := 0; ni < w.Names; ni++ {
		d[anchorNames[ni]] = markerSchemaN(r, ni)
	}
	return d
}

func refTo(c *Ctx, from, to *dynRes) string {
	fb := mustParse(from.URI)
	forms := uriForms(fb, mustParse(to.URI))
	keys := sortedKeys(forms)
	var ok []string
	for _, k := range keys {
		ref, err := url.Parse(forms[k])
		if err == nil && fb.ResolveReference(ref).String() == to.URI {
			ok = append(ok, forms[k])
		}
	}
	return ok[c.W(len(ok))]
}

// hopRef is the reference a hop uses to enter resource to.
func hopRef(c *Ctx, from, to *dynRes) string {
	if to.Entry == "" {
		return refTo(c, from, to)
	}
	return refTo(c, from, to) + "#" + fragEscape(to.Entry[1:])
}

func genDynWorld(c *Ctx) *dynWorld { return genDynWorldOpt(c, false) }

// genDynWorldOpt: with fanout the root always evaluates both chains in one call.
func genDynWorldOpt(c *Ctx, fanout bool) *dynWorld {
	w := &dynWorld{Docs: map[string]string{}}
	// Anchor names come from an open-ended space (a, b, a17, b17, a203 ...): over the life of a
	// process hundreds of distinct names are resolved, as in a service that resolves its users'
	// schemas; whatever the library keys by name (interning tables, bit sets, caches) must not run
	// out. (The names are baked into the rendered documents below.)
	anchorNames = [2]string{"a", "b"}
	if c.W(3) != 0 {
		sfx := fmt.Sprint(c.W(300))
		anchorNames = [2]string{"a" + sfx, "b" + sfx}
	}
	w.Fanout = c.W(3) == 0 || fanout
	w.Names = 1 + c.W(2)
	anchorChoice := func(pool []int) [2]int {
		var a [2]int
		for ni := 0; ni < w.Names; ni++ {
			a[ni] = pool[c.W(len(pool))]
		}
		return a
	}
	w.Root = &dynRes{Name: "root", URI: dynRootURI, Marker: "T_root", Anchor: anchorChoice([]int{0, 0, 1, 2})}
	n := 1 + c.W(5) // resources besides root (incl. final)
	for i := 0; i < n; i++ {
		r := &dynRes{Idx: i, Name: fmt.Sprintf("r%d", i), Marker: fmt.Sprintf("T_%d", i), Anchor: anchorChoice([]int{0, 1, 2, 2})}
		r.Entry = []string{"", "", "#/$defs/entry", "#ent"}[c.W(4)]
		switch c.W(4) {
		case 0, 1:
			r.Remote = true
			r.URI = fmt.Sprintf("http://d.test/s/r%d.json", i)
			if c.W(3) == 0 {
				r.URI = fmt.Sprintf("http://e.test/x/r%d.json", i)
			}
		case 2:
			r.IDText = fmt.Sprintf("e%d.json", i)
			r.URI = "http://d.test/s/" + r.IDText
		case 3:
			r.IDText = fmt.Sprintf("http://e.test/emb/e%d.json", i)
			r.URI = r.IDText
		}
		w.Res = append(w.Res, r)
	}
	w.Final = w.Res[n-1]
	// Two disjoint chains over the other resources.
	others := subsetShuffled(c, w.Res[:n-1], n-1)
	cut := 0
	if len(others) > 0 {
		cut = c.W(len(others) + 1)
	}
	used := others
	if len(others) > 0 && c.W(3) == 0 { // leave some resources off both paths
		used = others[:c.W(len(others)+1)]
		if cut > len(used) {
			cut = len(used)
		}
	}
	// The library keeps $id tables per document: a reference from a remote
	// document to a resource embedded in another document is asked of the
	// Loader (documented limitation, excluded here). So along a chain embedded
	// resources come before remote ones, and an embedded final resource keeps
	// the whole chain inside the root document.
	embeddedFirst := func(rs []*dynRes) []*dynRes {
		var a, b []*dynRes
		for _, r := range rs {
			if w.Final.Remote && r.Remote {
				b = append(b, r)
				continue
			}
			if r.Remote { // final is embedded: pull r into the root document
				r.Remote = false
				r.IDText = fmt.Sprintf("p%d.json", r.Idx)
				r.URI = "http://d.test/s/" + r.IDText
			}
			a = append(a, r)
		}
		return append(a, b...)
	}
	w.Paths[0] = append(embeddedFirst(used[:cut]), w.Final)
	w.Paths[1] = append(embeddedFirst(used[cut:]), w.Final)
	if len(used) >= 2 && c.W(3) == 0 {
		// Permuted chains: the SAME set of resources entered in two different orders
		// (the outermost declarer differs although the set in scope is the same).
		for _, r := range used {
			if w.Final.Remote && !r.Remote {
				r.Remote, r.IDText = true, ""
				r.URI = fmt.Sprintf("http://d.test/s/q%d.json", r.Idx)
			}
		}
		a := embeddedFirst(used)
		b := make([]*dynRes, len(a))
		for i, r := range a {
			b[len(a)-1-i] = r
		}
		if len(a) > 2 && c.W(2) == 0 {
			b = subsetShuffled(c, a, len(a))
		}
		w.Paths[0] = append(append([]*dynRes{}, a...), w.Final)
		w.Paths[1] = append(b, w.Final)
		w.Permuted = true
	}
	// Final $dynamicRef(s), one per anchor name in use.
	for ni := 0; ni < w.Names; ni++ {
		var anchored []*dynRes
		for _, r := range append([]*dynRes{w.Root}, w.Res...) {
			if r.Anchor[ni] != 0 && (!w.Final.Remote || r.Remote || r == w.Root) {
				anchored = append(anchored, r)
			}
		}
		form := c.W(3)
		if form == 0 && w.Final.Anchor[ni] == 0 {
			w.Final.Anchor[ni] = 1 + c.W(2) // "#a" needs an anchor a in the final resource (bookend)
			anchored = append(anchored, w.Final)
		}
		if form == 1 && len(anchored) == 0 {
			form = 2
		}
		name := anchorNames[ni]
		switch form {
		case 0:
			w.RefForm[ni], w.RefText[ni], w.Static[ni] = "frag", "#"+name, w.Final
			w.Dynamic[ni] = w.Final.Anchor[ni] == 2
		case 1:
			x := anchored[c.W(len(anchored))]
			w.RefForm[ni], w.Static[ni] = "resource", x
			w.RefText[ni] = refTo(c, w.Final, x) + "#" + name
			if x == w.Final && c.W(2) == 0 {
				w.RefText[ni] = "#" + name
			}
			w.Dynamic[ni] = x.Anchor[ni] == 2
		case 2:
			w.RefForm[ni], w.RefText[ni], w.Static[ni] = "pointer", "#/$defs/"+name, w.Final
			w.Dynamic[ni] = false
		}
	}
	// A detour: entered through a failing anyOf branch and left again before the chain continues.
	if c.W(2) == 0 {
		var holders []*dynRes
		holders = append(holders, w.Root)
		for p := 0; p < 2; p++ {
			for _, r := range w.Paths[p] {
				if r != w.Final {
					holders = append(holders, r)
				}
			}
		}
		w.DetAt = holders[c.W(len(holders))]
		d := &dynRes{Idx: 90, Name: "det", Marker: "T_det"}
		for ni := 0; ni < w.Names; ni++ {
			d.Anchor[ni] = 2
		}
		if w.DetAt.Remote || c.W(2) == 0 {
			d.Remote = true
			d.URI = "http://d.test/s/det.json"
		} else {
			d.IDText = "det-emb.json"
			d.URI = "http://d.test/s/det-emb.json"
		}
		w.Detour = d
		db := map[string]any{"not": map[string]any{}, "$defs": w.markerDefs(d)}
		if d.IDText != "" {
			db["$id"] = d.IDText
		}
		d.Body = db
	}
	// Bodies.
	hops := []string{"$ref", "$dynamicRef", "allOf", "anyOf", "oneOf", "if-then"}
	pathCond := map[string]any{"properties": map[string]any{"p": map[string]any{"const": "A"}}, "required": []any{"p"}}
	nextOn := func(r *dynRes, p int) *dynRes {
		for i, x := range w.Paths[p] {
			if x == r && i+1 < len(w.Paths[p]) {
				return w.Paths[p][i+1]
			}
		}
		return nil
	}
	build := func(r *dynRes) {
		defs := w.markerDefs(r)
		root := map[string]any{"$defs": defs}
		if r.IDText != "" {
			root["$id"] = r.IDText
		}
		b := root // the subschema that is entered and holds the hop
		if r.Entry != "" {
			b = map[string]any{}
			if r.Entry == "#ent" {
				b["$anchor"] = "ent"
			}
			defs["entry"] = b
			root["title"] = "root of " + r.Name + " (never evaluated)"
		}
		nA, nB := nextOn(r, 0), nextOn(r, 1)
		hop := func(dst map[string]any, next *dynRes) {
			ref := hopRef(c, r, next)
			h := pick(c, hops)
			if strings.Contains(ref, "#") && h == "$dynamicRef" {
				h = "$ref" // a $dynamicRef with a fragment would itself be a candidate for dynamic behaviour
			}
			r.Hop += h + " "
			switch h {
			case "$ref":
				dst["$ref"] = ref
			case "$dynamicRef":
				dst["$dynamicRef"] = ref
			case "allOf", "anyOf", "oneOf":
				dst[h] = []any{map[string]any{"$ref": ref}}
			case "if-then":
				dst["if"] = map[string]any{}
				dst["then"] = map[string]any{"$ref": ref}
			}
		}
		var real map[string]any // what performs the real hop (may be wrapped by a detour)
		switch {
		case r == w.Final || (nA == nil && nB == nil):
		case nA != nil && nB != nil && nA != nB:
			// the successor depends on the chain: decided by the instance's p
			th, el := map[string]any{}, map[string]any{}
			hop(th, nA)
			hop(el, nB)
			real = map[string]any{"if": pathCond, "then": th, "else": el}
			r.Hop = "by-chain: " + r.Hop
		default:
			n := nA
			if n == nil {
				n = nB
			}
			real = map[string]any{}
			hop(real, n)
		}
		if real != nil {
			if r == w.DetAt {
				r.Hop = "anyOf-detour " + r.Hop
				b["anyOf"] = []any{map[string]any{"$ref": refTo(c, r, w.Detour)}, real}
			} else {
				for k, v := range real {
					b[k] = v
				}
			}
		}
		r.Body = root
	}
	for _, r := range w.Res {
		build(r)
	}
	holder := w.Final.Body
	if w.Final.Entry != "" {
		holder = w.Final.Body["$defs"].(map[string]any)["entry"].(map[string]any)
	}
	if c.W(3) == 0 {
		w.Descend = true
		sub := map[string]any{}
		holder["properties"] = map[string]any{"k": sub}
		holder = sub
	}
	if w.Names == 1 {
		holder["$dynamicRef"] = w.RefText[0]
	} else {
		holder["allOf"] = []any{map[string]any{"$dynamicRef": w.RefText[0]}, map[string]any{"$dynamicRef": w.RefText[1]}}
	}
	// Root document.
	root := map[string]any{
		"$schema": "https://json-schema.org/draft/2020-12/schema",
		"if":      map[string]any{"properties": map[string]any{"p": map[string]any{"const": "A"}}, "required": []any{"p"}},
		"then":    map[string]any{"$ref": hopRef(c, w.Root, w.Paths[0][0])},
		"else":    map[string]any{"$ref": hopRef(c, w.Root, w.Paths[1][0])},
	}
	if w.Fanout {
		root = map[string]any{
			"$schema": "https://json-schema.org/draft/2020-12/schema",
			"properties": map[string]any{
				"A": map[string]any{"$ref": hopRef(c, w.Root, w.Paths[0][0])},
				"B": map[string]any{"$ref": hopRef(c, w.Root, w.Paths[1][0])},
			},
		}
		if !w.Permuted && c.W(3) == 0 {
			// disjoint chains (no hop depends on the instance's p): both are applied to the same object
			w.SameInst = true
			root = map[string]any{
				"$schema": "https://json-schema.org/draft/2020-12/schema",
				"allOf": []any{
					map[string]any{"$ref": hopRef(c, w.Root, w.Paths[0][0])},
					map[string]any{"$ref": hopRef(c, w.Root, w.Paths[1][0])},
				},
			}
		}
	}
	if w.DetAt == w.Root {
		wrap := func(ref any) map[string]any {
			return map[string]any{"anyOf": []any{map[string]any{"$ref": refTo(c, w.Root, w.Detour)}, ref}}
		}
		if w.SameInst {
			ao := root["allOf"].([]any)
			ao[0], ao[1] = wrap(ao[0]), wrap(ao[1])
		} else if w.Fanout {
			pr := root["properties"].(map[string]any)
			pr["A"] = wrap(pr["A"])
			pr["B"] = wrap(pr["B"])
		} else {
			root["then"] = wrap(root["then"])
			root["else"] = wrap(root["else"])
		}
	}
	defs := w.markerDefs(w.Root)
	if w.Detour != nil {
		if w.Detour.Remote {
			w.Docs[w.Detour.URI] = JSON(w.Detour.Body)
		} else {
			defs["det"] = w.Detour.Body
		}
	}
	for _, r := range w.Res {
		if r.Remote {
			w.Docs[r.URI] = JSON(r.Body)
		} else {
			defs[r.Name] = r.Body
		}
	}
	root["$defs"] = defs
	w.RootDoc = JSON(root)
	return w
}

// expected returns the marker of the schema the final $dynamicRef must use when
// the evaluation went down chain p.
func (w *dynWorld) expected(p int) string { return w.expectedN(p, 0) }

func (w *dynWorld) expectedAll(p int) []string {
	var out []string
	for ni := 0; ni < w.Names; ni++ {
		out = append(out, w.expectedN(p, ni))
	}
	return out
}

// expectedN is the model for anchor name ni.
func (w *dynWorld) expectedN(p, ni int) string {
	if !w.Dynamic[ni] {
		return w.Static[ni].marker(ni)
	}
	for _, r := range append([]*dynRes{w.Root}, w.Paths[p]...) {
		if r.Anchor[ni] == 2 {
			return r.marker(ni)
		}
	}
	return w.Static[ni].marker(ni) // no resource in the dynamic scope declares the anchor: the initial target stands
}

func (w *dynWorld) loader() jsonschema.Loader { return w.loaderFailing("", nil) }

// loaderFailing is the document store with one document that cannot be had (fail != "") and a
// log of the requests.
func (w *dynWorld) loaderFailing(fail string, log *[]string) jsonschema.Loader {
	return func(u *url.URL) (*jsonschema.Schema, error) {
		if log != nil {
			*log = append(*log, u.String())
		}
		if fail != "" && u.String() == fail {
			return nil, ErrInjected
		}
		text, ok := w.Docs[u.String()]
		if !ok {
			return nil, fmt.Errorf("simulated store: no document at %s", u)
		}
		var s jsonschema.Schema
		if err := json.Unmarshal([]byte(text), &s); err != nil {
			return nil, err
		}
		return &s, nil
	}
}

func (w *dynWorld) resolve(c *Ctx) (*jsonschema.Resolved, error, OpResult) {
	var s jsonschema.Schema
	if err := json.Unmarshal([]byte(w.RootDoc), &s); err != nil {
		return nil, err, OpResult{}
	}
	var res *jsonschema.Resolved
	var err error
	r := Op(func() { res, err = s.Resolve(&jsonschema.ResolveOptions{BaseURI: dynRootURI, Loader: w.loader()}) })
	c.CheckOp("Resolve", r)
	return res, err, r
}

type dynCall struct {
	Inst  any
	Path  int
	Valid bool
	Note  string
}

// markersFor draws the marker properties (t, and u in two-name worlds) of a probe that goes down
// chain p, and reports whether the model accepts them.
func (w *dynWorld) markersFor(c *Ctx, p int, dst map[string]any) (valid bool, note string) {
	valid = true
	for ni := 0; ni < w.Names; ni++ {
		exp := w.expectedN(p, ni)
		switch c.W(6) {
		case 0: // absent
		case 1, 2, 3:
			dst[markerProps[ni]] = exp
		default:
			pool := []string{"T_root", "ZZ", w.Final.Marker}
			for _, r := range w.Res {
				pool = append(pool, r.Marker)
			}
			m := pick(c, pool)
			if ni == 1 && m != "ZZ" {
				m = "U" + m[1:]
			}
			dst[markerProps[ni]] = m
			if m != exp {
				valid = false
			}
			note += markerProps[ni] + "=" + m + " "
		}
	}
	return
}

// descend moves the marker members of m into its member k (worlds whose final references sit
// below properties/k).
func (w *dynWorld) descend(m map[string]any) {
	if !w.Descend {
		return
	}
	k := map[string]any{}
	for _, mp := range markerProps {
		if v, ok := m[mp]; ok {
			k[mp] = v
			delete(m, mp)
		}
	}
	m["k"] = k
}

func (w *dynWorld) history(c *Ctx) []dynCall {
	out := w.history0(c)
	for _, call := range out {
		m, ok := call.Inst.(map[string]any)
		if !ok {
			continue
		}
		if w.Fanout && !w.SameInst {
			for _, key := range []string{"A", "B"} {
				if sub, ok := m[key].(map[string]any); ok {
					w.descend(sub)
				}
			}
		} else {
			w.descend(m)
		}
	}
	return out
}

func (w *dynWorld) history0(c *Ctx) []dynCall {
	n := 6 + c.W(11)
	if c.W(12) == 0 {
		// a long life: a few hundred calls on one Resolved (whatever a call leaves behind when it
		// ends in an error accumulates)
		n = 150 + c.W(250)
	}
	var out []dynCall
	for i := 0; i < n && w.SameInst; i++ {
		if c.W(10) == 0 {
			out = append(out, dynCall{Inst: pick(c, []any{"str", 5.0, nil, []any{}}), Path: 0, Valid: true, Note: "non-object"})
			continue
		}
		inst := map[string]any{"p": pick(c, []string{"A", "B", "C"})}
		valid := true
		note := "same-instance fan-out "
		for ni := 0; ni < w.Names; ni++ {
			var m string
			switch c.W(7) {
			case 0:
				continue // absent
			case 1, 2:
				m = w.expectedN(0, ni)
			case 3, 4:
				m = w.expectedN(1, ni)
			default:
				pool := []string{"T_root", "ZZ", w.Final.Marker}
				for _, r := range w.Res {
					pool = append(pool, r.Marker)
				}
				m = pick(c, pool)
				if ni == 1 && m != "ZZ" {
					m = "U" + m[1:]
				}
			}
			inst[markerProps[ni]] = m
			if m != w.expectedN(0, ni) || m != w.expectedN(1, ni) {
				valid = false
			}
			note += markerProps[ni] + "=" + m + " "
		}
		out = append(out, dynCall{Inst: inst, Path: 0, Valid: valid, Note: note})
	}
	for i := 0; i < n && w.Fanout && !w.SameInst; i++ {
		inst := map[string]any{}
		valid := true
		note := ""
		for p, key := range []string{"A", "B"} {
			switch c.W(6) {
			case 0: // absent
			case 1:
				inst[key] = pick(c, []any{"str", 5.0, nil})
			default:
				sub := map[string]any{"p": key}
				v, nt := w.markersFor(c, p, sub)
				inst[key] = sub
				valid = valid && v
				note += key + ":" + nt
			}
		}
		out = append(out, dynCall{Inst: inst, Path: c.W(2), Valid: valid, Note: "fan-out " + note})
	}
	for i := 0; i < n && !w.Fanout; i++ {
		p := c.W(2)
		pv := "A"
		if p == 1 {
			pv = pick(c, []string{"B", "C"})
		}
		switch c.W(8) {
		case 0:
			out = append(out, dynCall{Inst: pick(c, []any{"str", 5.0, nil, []any{}}), Path: 1, Valid: true, Note: "non-object"})
		default:
			inst := map[string]any{"p": pv}
			v, nt := w.markersFor(c, p, inst)
			out = append(out, dynCall{Inst: inst, Path: p, Valid: v, Note: nt})
		}
	}
	return out
}

func (w *dynWorld) describe() map[string]any {
	paths := [2][]string{}
	for p := 0; p < 2; p++ {
		for _, r := range w.Paths[p] {
			paths[p] = append(paths[p], fmt.Sprintf("%s(%s,%s,hop=%s,entered-at=%q)", r.Name, fmt.Sprint(r.Anchor), map[bool]string{true: "remote", false: "embedded"}[r.Remote], r.Hop, r.Entry))
		}
	}
	docs := map[string]any{}
	for k, v := range w.Docs {
		docs[k] = json.RawMessage(v)
	}
	return map[string]any{"root": json.RawMessage(w.RootDoc), "remote_documents": docs, "chainA": paths[0], "chainB": paths[1],
		"root_anchor": w.Root.Anchor, "fan_out": w.Fanout, "fan_out_over_one_object": w.SameInst, "final_refs_below_properties_k": w.Descend, "permuted_chains": w.Permuted, "anchor_names": w.Names, "final_dynamicRef": w.RefText[:w.Names], "form": w.RefForm[:w.Names], "acts_dynamically": w.Dynamic[:w.Names],
		"expectedA": w.expectedAll(0), "expectedB": w.expectedAll(1), "detour_at": func() string {
			if w.DetAt == nil {
				return ""
			}
			return w.DetAt.Name
		}()}
}

func driveC06(c *Ctx) {
	w := genDynWorld(c)
	desc := JSON(w.describe())
	c.In("world %s", desc)
	hist := w.history(c)
	c.In("history %s", JSON(hist))
	c.Distinct("%s|%s", desc, JSON(hist))
	scheds := []schedule{{simrt.OrderSorted, 64, 0}, {simrt.OrderReversed, 64, 1}, {simrt.OrderPerVisit, 64, 2}, {simrt.OrderShuffle, 64, 3}}
	nontrivial := false
	// Loader faults: every document that a healthy Resolve asks for is needed ($dynamicRef needs
	// its initial target like $ref does); if the store cannot supply it, Resolve fails.
	if len(w.Docs) > 0 {
		var healthy []string
		resolveWith := func(l jsonschema.Loader) (error, OpResult) {
			var s jsonschema.Schema
			if err := json.Unmarshal([]byte(w.RootDoc), &s); err != nil {
				return err, OpResult{}
			}
			var err error
			r := Op(func() { _, err = s.Resolve(&jsonschema.ResolveOptions{BaseURI: dynRootURI, Loader: l}) })
			c.CheckOp("Resolve", r)
			return err, r
		}
		if err, r := resolveWith(w.loaderFailing("", &healthy)); err == nil && !r.Panicked {
			seen := map[string]bool{}
			for _, uri := range healthy {
				if seen[uri] {
					continue
				}
				seen[uri] = true
				err, r := resolveWith(w.loaderFailing(uri, nil))
				c.Fault("loader:persistent-error")
				if !r.Panicked && err == nil {
					c.Fail("C06/loader-fault", "error-swallowed", "the Loader fails for %s, which a healthy Resolve of this world requests, and Resolve succeeds all the same (healthy requests %v)", uri, healthy)
					break
				}
			}
		}
	}
	for si, sch := range scheds {
		sch.apply(c)
		res, err, r := w.resolve(c)
		if r.Panicked {
			c.Fail("C06/resolve", "resolve-"+r.String(), "schedule %d: Resolve of a well-formed dynamic-scope world did not return normally: %s", si, r.Value)
			continue
		}
		if err != nil {
			c.Fail("C06/resolve", "resolve-error:"+errSig(err), "schedule %d: Resolve of a well-formed dynamic-scope world failed: %v", si, err)
			continue
		}
		prevPath := -1
		for hi, call := range hist {
			var verr error
			r := Op(func() { verr = res.Validate(call.Inst) })
			c.CheckOp("Validate", r)
			if r.Panicked {
				c.Fail("C06/target", "validate-"+r.String(), "schedule %d call %d: Validate(%s) did not return normally: %s", si, hi, JSON(call.Inst), r.Value)
				break
			}
			if si == 0 {
				c.Out("call %d %s -> %s", hi, JSON(call.Inst), verdict(verr))
			}
			if (verr == nil) != call.Valid {
				// Is it the history or the topology? Ask a fresh Resolved.
				fres, ferr, fr := w.resolve(c)
				oracle, site := "C06/target", w.RefForm[0]
				if w.Names == 2 {
					site += "+" + w.RefForm[1]
				}
				if !fr.Panicked && ferr == nil {
					var fv error
					Op(func() { fv = fres.Validate(call.Inst) })
					if (fv == nil) == call.Valid {
						oracle, site = "C06/history", "scope-leak"
					}
				}
				c.Fail(oracle, site, "schedule %d call %d: Validate(%s) valid=%v, the model says %v (chain %s, $dynamicRef %q form %v, acts dynamically=%v, expected markers on this chain %v); error: %v",
					si, hi, JSON(call.Inst), verr == nil, call.Valid, "AB"[call.Path:call.Path+1], w.RefText[:w.Names], w.RefForm[:w.Names], w.Dynamic[:w.Names],
					w.expectedAll(call.Path), verr)
				break
			}
			for ni := 0; ni < w.Names; ni++ {
				if w.Dynamic[ni] && w.expectedN(call.Path, ni) != w.Static[ni].marker(ni) && prevPath >= 0 && prevPath != call.Path {
					nontrivial = true
				}
				if w.Fanout && w.Dynamic[ni] && w.expectedN(0, ni) != w.expectedN(1, ni) {
					nontrivial = true
				}
			}
			prevPath = call.Path
		}
	}
	st := simrt.GetStats()
	c.Distinct("%x", st.OrderHash)
	c.Nontrivial = nontrivial
	disagree := false
	for ni := 0; ni < w.Names; ni++ {
		c.Probe("ref-form:" + w.RefForm[ni])
		if w.Dynamic[ni] {
			c.Probe("acts-dynamically")
			if w.expectedN(0, ni) != w.expectedN(1, ni) {
				c.Probe("chains-disagree-on-target")
				disagree = true
			}
		}
		if st := w.Static[ni]; st != w.Final && !contains(w.Paths[0], st) && !contains(w.Paths[1], st) && st != w.Root {
			c.Probe("static-target-off-path")
		}
	}
	if w.Names == 2 {
		c.Probe("two-anchor-names")
	}
	if len(w.Docs) > 0 {
		c.Probe("loader-supplied-resources")
	}
	if w.Fanout {
		c.Probe("fan-out-root")
	}
	if w.SameInst {
		c.Probe("fan-out-over-one-object")
	}
	if w.Detour != nil {
		c.Probe("detour-through-failing-branch")
	}
	if w.Permuted {
		c.Probe("permuted-chains")
		if disagree {
			c.Probe("permuted-chains-disagree-on-target")
		}
	}
	for _, r := range w.Res {
		if r.Entry != "" && (contains(w.Paths[0], r) || contains(w.Paths[1], r)) {
			c.Probe("resource-entered-at-subschema")
			break
		}
	}
	if c.logOn {
		c.Sample = map[string]any{"world": w.describe(), "history": hist}
	}
}

func contains(rs []*dynRes, r *dynRes) bool {
	for _, x := range rs {
		if x == r {
			return true
		}
	}
	return false
}
