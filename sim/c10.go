package sim

import (
	"encoding/json"
	"fmt"
	"net/url"

	"github.com/google/jsonschema-go/jsonschema"
	"verif.local/simrt"
)

func init() {
	Drivers["C10"] = driveC10
	Levels["C10"] = "fault_enumeration"
	Rules["C10"] = "one run = one document universe (<=4 documents, some replaced by documents that fail the resolver's checks: bad regexp, $id with fragment, unsupported $schema, non-schema JSON, dangling reference; or a 60-deep chain of documents) under an enumerated set of loader behaviours: for every call index k up to the number of healthy calls + 1 and every behaviour in {error, (nil,nil), the root document again, a valid but wrong document, a document that declares the root's $id, the same *Schema pointer as an earlier call, the right document as a cyclic or heavily shared Go graph, a re-entrant loader that resolves the document itself before handing it out}, errors that come with an empty schema or with the whole document, documents carrying the same key twice, one Schema variable reused for document after document, plus every single failing document; each Resolve, and Validate + ApplyDefaults of pooled instances on every Resolved that was obtained, must return a value or an error within the step budget. The same recover+budget oracle wraps every operation of the other properties' workloads, which this check also runs. Non-trivial = a fault fired while a reference was in flight (not on the first and not after the last request). Distinct = hash(universe, fault plan set) x order-vector hash."
	Assumptions["C10"] = append([]string{
		"decided: the fault-sequence clause (loader behaviours) and every operation executed by the other simulated workloads; NOT decided: robustness on arbitrary bytes, arbitrary in-memory Schema graphs, arbitrary Go representations of instances, arbitrary types (pure functions of the input)",
		"a hang is a step-budget overrun (4*10^5 yields per operation, 5*10^6 for the deep chain; the largest legitimate operation in the workloads uses about 10^5); instances are canonical encoding/json values held through a pointer",
		"a loader that returns the root document again does so for one call only: an always-self loader with path-relative references is an infinite universe, which no resolver can exhaust",
	}, CommonAssumptions...)
}

var badDocs = []struct{ kind, text string }{
	{"bad-regexp", `{"pattern":"(","properties":{"v":{"const":"X"}}}`},
	{"bad-pattern-property", `{"patternProperties":{"[":{}}}`},
	{"id-with-fragment", `{"$id":"http://bad.test/x.json#frag"}`},
	{"unsupported-schema-version", `{"$schema":"http://json-schema.org/draft-04/schema#","properties":{"v":{"const":"X"}}}`},
	{"not-a-schema", `{"type":5}`},
	{"not-json", `{"type":`},
	{"dangling-inside", `{"$ref":"#/nowhere"}`},
	{"both-type-and-types", `{"properties":{"n":{"$ref":"#/$defs/zz"}}}`},
	{"vocabulary", `{"$vocabulary":{"x":true}}`},
	{"relative-id-chain", `{"$id":"sub/again.json","$defs":{"a":{"$id":"deeper/more.json","$ref":"../../r.json"}}}`},
	{"duplicate-anchor", `{"$defs":{"a":{"$anchor":"x"},"b":{"$anchor":"x"}}}`},
	{"draft07-with-dynamicRef", `{"$schema":"http://json-schema.org/draft-07/schema#","$dynamicRef":"#x","definitions":{"x":{"$dynamicAnchor":"x","type":"object"}},"properties":{"v":{"$dynamicRef":"#x"},"n":{"$dynamicRef":"#x"}}}`},
	{"2020-with-dynamicRef", `{"$schema":"https://json-schema.org/draft/2020-12/schema","$dynamicRef":"#x","$defs":{"x":{"$dynamicAnchor":"x","type":"object"}},"properties":{"v":{"$dynamicRef":"#x"},"n":{"$recursiveRef":"#"}}}`},
	{"draft07-items-array", `{"$schema":"http://json-schema.org/draft-07/schema#","items":[{"type":"string"}],"additionalItems":false,"dependencies":{"v":["n"],"n":{"required":["v"]}}}`},
	{"2020-prefixItems", `{"$schema":"https://json-schema.org/draft/2020-12/schema","prefixItems":[{"type":"string"}],"items":false,"dependentSchemas":{"v":{"required":["n"]}},"unevaluatedProperties":false}`},
	{"draft07-ref-beside-dynamicRef", `{"$schema":"http://json-schema.org/draft-07/schema#","definitions":{"x":{"$dynamicAnchor":"x"},"y":{"type":["object","string","null","number","array","boolean"]}},"properties":{"v":{"$ref":"#/definitions/y","$dynamicRef":"#x"},"n":{"$ref":"#/definitions/y","$dynamicRef":"#x"},"m":{"$ref":"#/definitions/y","$dynamicRef":"#/definitions/y"}},"$ref":"#/definitions/y","$dynamicRef":"#x"}`},
	{"2020-ref-beside-dynamicRef", `{"$schema":"https://json-schema.org/draft/2020-12/schema","$defs":{"x":{"$dynamicAnchor":"x"},"y":{}},"properties":{"v":{"$ref":"#/$defs/y","$dynamicRef":"#x"},"n":{"$ref":"#/$defs/y","$dynamicRef":"#x"}},"$ref":"#/$defs/y","$dynamicRef":"#x"}`},
	{"duplicate-key-not", `{"not":{"dependencies":{"a":{}},"properties":{"q":{}}},"properties":{"v":{"const":"X"}},"not":{"dependencies":{"a":["b"]},"properties":{"q":false}}}`},
	{"duplicate-key-items", `{"$schema":"http://json-schema.org/draft-07/schema#","items":[{"type":"string"}],"properties":{"v":{"const":"X"}},"items":{"type":"integer"}}`},
	{"duplicate-key-defs", `{"$defs":{"a":{"$anchor":"x","type":"string"}},"properties":{"n":{"$ref":"#x"}},"$defs":{"a":{"type":["integer","null"],"enum":[1]},"b":{"$anchor":"x"}}}`},
	{"duplicate-key-type", `{"type":"string","properties":{"v":{"const":"X"}},"type":["object","null"],"if":{"const":1},"if":{"type":["string"],"type":"object"}}`},
	{"empty", `{}`},
	{"boolean-false", `false`},
	{"null", `null`},
}

var c10Instances = []any{
	nil, true, 1.0, "s", []any{}, []any{1.0, "a", nil}, map[string]any{}, map[string]any{"n": map[string]any{"v": "X"}},
	map[string]any{"v": "M0_0", "n": 5.0, "m": []any{}}, map[string]any{"n": map[string]any{"n": map[string]any{"n": map[string]any{"v": 1.0}}}},
}

func driveC10(c *Ctx) {
	deep := c.W(12) == 0
	var u *Universe
	bad := map[int]string{}
	if deep {
		u = deepChain(60)
		c.Probe("deep-chain")
	} else {
		u = GenUniverse(c, UniOpts{Draft7: c.W(4) == 0, MaxDocs: 4, Dangling: c.W(6) == 0, RootInPlace: c.W(2) == 0, Defaults: c.W(2) == 0, BadDefault: c.W(6) == 0})
		for i := 1; i < len(u.Docs); i++ {
			if c.W(3) == 0 {
				b := pick(c, badDocs)
				if c.W(3) == 0 {
					// the documents that mix drafts are the ones whose handling spans two code sites
					b = pick(c, badDocs[len(badDocs)-13:len(badDocs)-7])
				}
				bad[i] = b.kind
				u.Docs[i].Text = b.text
				c.Probe("bad-document:" + b.kind)
			}
		}
	}
	if !deep {
		c.In("universe %s", JSON(u.Describe()))
	} else {
		c.In("deep chain of %d documents", len(u.Docs))
	}
	c.Distinct("%v|%s|%v", deep, JSON(u.Describe()), bad)
	policy := simrt.Choose(simrt.SOrder, 0, simrt.NumOrderPolicies)
	simrt.SetOrderPolicy(policy)

	var root jsonschema.Schema
	var uerr error
	r := Op(func() { uerr = json.Unmarshal([]byte(u.Docs[0].Text), &root) })
	c.CheckOp("Unmarshal", r)
	if r.Panicked || uerr != nil {
		return
	}
	if !deep {
		// One Schema variable reused for document after document (a Loader that re-reads into the
		// value it keeps does this): decoding into a used value may merge, it must not panic, and
		// what comes out can be marshaled or gives an error.
		var reused jsonschema.Schema
		for _, d := range u.Docs {
			text := d.Text
			r := Op(func() { json.Unmarshal([]byte(text), &reused) })
			c.CheckOp("Unmarshal into a used Schema value", r)
			r = Op(func() { json.Marshal(&reused) })
			c.CheckOp("Marshal of a Schema value decoded into twice", r)
		}
		for k := 0; k < 3; k++ {
			text := pick(c, badDocs).text
			r := Op(func() { json.Unmarshal([]byte(text), &reused) })
			c.CheckOp("Unmarshal into a used Schema value", r)
		}
		c.Probe("schema-variable-reused")
	}
	budget := int64(DefaultBudget)
	if deep {
		budget = 5_000_000
	}
	inflight := false
	use := func(res *jsonschema.Resolved, what string) {
		for i, inst := range c10Instances {
			r := OpBudget(budget, func() { res.Validate(inst) })
			c.CheckOp(fmt.Sprintf("Validate(%s) after %s", JSON(inst), what), r)
			v := clone(inst)
			r = OpBudget(budget, func() { res.ApplyDefaults(&v) })
			c.CheckOp(fmt.Sprintf("ApplyDefaults(&%s) after %s", JSON(inst), what), r)
			if deep && i >= 2 {
				break
			}
		}
	}
	run := func(plan *FaultPlan, what string) int {
		log := &LoaderLog{}
		opts := &jsonschema.ResolveOptions{BaseURI: u.BaseURI, Loader: u.LoaderFor(c, plan, log), ValidateDefaults: u.HasDefaults && len(what)%2 == 0}
		var res *jsonschema.Resolved
		var err error
		r := OpBudget(budget, func() { res, err = root.Resolve(opts) })
		c.CheckOp("Resolve with loader plan: "+what, r)
		for _, f := range log.Fired {
			c.Fault("loader:" + f)
		}
		if len(log.Fired) > 0 {
			// in flight: not the very first request, and more requests followed or would have
			if plan != nil && (plan.FailCall > 1 || firstKey(plan.Special) > 1) {
				inflight = true
			}
		}
		c.Out("%s: %v err=%v calls=%d", what, r, err != nil, len(log.URIs))
		if !r.Panicked && err == nil && res != nil {
			use(res, what)
		}
		return len(log.URIs)
	}
	n := run(nil, "healthy")
	// malformed or unusual BaseURI options: an error is fine, a panic or hang is not
	// (none of them may name a document of the universe: with BaseURI file:///tmp/x.json a root whose
	// in-place "$ref":"./x.json" is meant for another document refers to ITSELF in place - recursion
	// that does not pass through an instance-descending keyword, which the property excludes)
	for _, b := range []string{"http://a.test/not-a-document.json#frag", "::bad", "relative/path.json", "urn:x:base", "http://[::1", "file:///tmp/not-a-document.json", "#"} {
		if c.W(3) != 0 {
			continue
		}
		log := &LoaderLog{}
		var res *jsonschema.Resolved
		var err error
		r := OpBudget(budget, func() {
			res, err = root.Resolve(&jsonschema.ResolveOptions{BaseURI: b, Loader: u.LoaderFor(c, nil, log)})
		})
		c.CheckOp(fmt.Sprintf("Resolve with BaseURI %q", b), r)
		c.Out("BaseURI %q: %v err=%v", b, r, err != nil)
		if !r.Panicked && err == nil && res != nil {
			use(res, "BaseURI "+b)
		}
		c.Probe("unusual-base-uri")
	}
	if deep {
		run(&FaultPlan{FailCall: 30}, "call 30 errs")
		run(&FaultPlan{Special: map[int]string{45: "nilnil"}}, "call 45 returns (nil,nil)")
		c.Nontrivial = true
		return
	}
	// Serving the root document again for a document that the root refers to IN PLACE makes the
	// copy refer to itself in place: a universe whose recursion does not pass through instance
	// descent, which the property excludes.
	selfOK := true
	for _, nd := range u.Docs[0].Nodes {
		if nd.InPlace != nil && nd.InPlace.To != nil && nd.InPlace.To.Doc != nd.Doc {
			selfOK = false
		}
	}
	for k := 1; k <= n+1 && k <= 8; k++ {
		run(&FaultPlan{FailCall: k, Partial: k % 3}, fmt.Sprintf("call %d errs (partial %d)", k, k%3))
		for _, b := range []string{"nilnil", "self", "wrong", "shared", "same-id", "cyclic", "dag", "reentrant"} {
			if b == "self" && !selfOK {
				continue
			}
			run(&FaultPlan{Special: map[int]string{k: b}}, fmt.Sprintf("call %d: %s", k, b))
		}
	}
	for d := 1; d < len(u.Docs); d++ {
		run(&FaultPlan{FailDocs: map[int]bool{d: true}}, fmt.Sprintf("document %d always errs", d))
	}
	// shared pointers for every call: the loader hands out the same *Schema each time it is asked for a document
	all := map[int]string{}
	for k := 1; k <= 16; k++ {
		all[k] = "shared"
	}
	run(&FaultPlan{Special: all}, "shared pointers")
	run(&FaultPlan{Special: all}, "shared pointers, second Resolve")
	c.Nontrivial = inflight
	if c.logOn {
		c.Sample = map[string]any{"universe": u.Describe(), "bad_documents": bad, "healthy_calls": n}
	}
}

func firstKey(m map[int]string) int {
	min := 0
	for k := range m {
		if min == 0 || k < min {
			min = k
		}
	}
	return min
}

// deepChain builds d0 -> d1 -> ... -> d(n-1), each document a hop whose n-slot
// refers to the next document.
func deepChain(n int) *Universe {
	u := &Universe{BaseURI: "http://deep.test/d0.json"}
	for i := 0; i < n; i++ {
		d := &Doc{Index: i, URI: fmt.Sprintf("http://deep.test/d%d.json", i)}
		d.Canon = d.URI
		body := map[string]any{"properties": map[string]any{"v": map[string]any{"const": fmt.Sprintf("D%d", i)}}}
		if i+1 < n {
			body["properties"].(map[string]any)["n"] = map[string]any{"$ref": fmt.Sprintf("d%d.json", i+1)}
			if i%7 == 3 {
				body["$ref"] = fmt.Sprintf("d%d.json#", i+1) // in-place hop as well
			}
		}
		d.Body = body
		d.Text = JSON(body)
		base, _ := url.Parse(d.URI)
		d.Root = &Node{Doc: d, IsRes: true, Base: base, Marker: fmt.Sprintf("D%d", i)}
		d.Root.Res = d.Root
		d.Nodes = []*Node{d.Root}
		u.Docs = append(u.Docs, d)
		u.Nodes = append(u.Nodes, d.Root)
	}
	return u
}
