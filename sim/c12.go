package sim

import (
	"encoding/json"
	"fmt"
	"hash/maphash"
	"reflect"

	"github.com/google/jsonschema-go/jsonschema"
	"verif.local/simrt"
)

func init() {
	Drivers["C12"] = driveC12
	Levels["C12"] = "exploration"
	Rules["C12"] = "one run = one array (length 0-8, a quarter of them 9-24, elements of every JSON type in mixed Go representations: float64/int/int8/uint/float32/json.Number spellings, inside []any and map[string]any containers built in different insertion orders) with or without a planted duplicate at a chosen pair of positions that is equal but not identical, checked against {uniqueItems:true}; or one enum / const schema (a quarter of the enums: numbers in mixed spellings; some decoded from JSON next to a twin that its owner edits) against an instance, a near miss of a listed value, and 2-5 further instances asked of the same Resolved afterwards; or (one run in six) 2-4 arrays that share elements, checked inside ONE Validate call below anyOf / not / if-then / contains (which swallow a failed uniqueItems), against the definition applied array by array; or (one run in 24) an array of 65-450 items with one Equal pair at a chosen pair of positions, validated 10 times (10 seeds); each validated under 8 (quick) / 24 (thorough) configurations of hash seed x collision mask {64,2,1,0 bits} x map order. Oracles: the verdict equals the pairwise definition computed with the public Equal, identically in every configuration; and, through the generated hashValue helper, Equal(x,y) implies equal digests under the same seed with independent map orders for x and y. Non-trivial = a planted duplicate whose members differ in Go representation in an array of length >=3, or a masked configuration in which >=2 unequal items shared a bucket. Distinct = hash(values with their Go types, schema kind) x (seed, mask, order) vector."
	Assumptions["C12"] = append([]string{
		"Equal is used as the definition of JSON equality, as the property's text does (that Equal itself is right is C11, not claimed); values behind pointers and typed containers ([]int, map[string]int) are not generated: Equal(&x, x) and Equal([]int{1}, []any{1.0}) are false (Equal does not look through an interface on one side only), which is a C11/C08 matter outside this check",
		"with -tags purego hash/maphash is a pure function of the seed value, so a seed is a replayable decision; masking Sum64 to 2, 1 or 0 bits forces the collision path, which has probability 2^-64 per pair otherwise",
	}, CommonAssumptions...)
}

// rerepr returns a value Equal to v in another Go representation.
func rerepr(c *Ctx, v any, depth int) any {
	switch x := v.(type) {
	case float64:
		isInt := x == float64(int64(x)) && x > -1e15 && x < 1e15
		switch c.W(8) {
		case 0:
			if isInt {
				return int(x)
			}
		case 1:
			if isInt && x >= -128 && x <= 127 {
				return int8(x)
			}
		case 2:
			if isInt && x >= 0 {
				return uint(x)
			}
		case 3:
			if float64(float32(x)) == x {
				return float32(x)
			}
		case 4:
			b, _ := json.Marshal(x)
			return json.Number(string(b))
		case 5:
			if isInt {
				return json.Number(fmt.Sprintf("%d.0", int64(x)))
			}
		case 6:
			if isInt {
				return json.Number(fmt.Sprintf("%de0", int64(x)))
			}
			return json.Number(fmt.Sprintf("%ge-1", x*10))
		case 7:
			if isInt {
				return int64(x)
			}
		}
		return x
	case string:
		return x
	case []any:
		if depth > 0 && c.W(2) == 0 {
			out := make([]any, len(x))
			for i := range x {
				out[i] = rerepr(c, x[i], depth-1)
			}
			return out
		}
		return append([]any{}, x...)
	case map[string]any:
		out := make(map[string]any, len(x))
		// insert in another order (reverse-sorted) and re-represent members
		ks := sortedKeys(x)
		for i := len(ks) - 1; i >= 0; i-- {
			if depth > 0 {
				out[ks[i]] = rerepr(c, x[ks[i]], depth-1)
			} else {
				out[ks[i]] = x[ks[i]]
			}
		}
		return out
	}
	return v
}

// nearMiss returns a deep copy of a canonical JSON value (nil, bool, float64, string, []any,
// map[string]any) changed at exactly one place, so that it is NOT JSON-equal to v by construction:
// a flipped bool, a string with one more rune, a number moved by one, null turned into false, an
// array or object with one more member, or one member replaced by its own near miss.
func nearMiss(c *Ctx, v any) any {
	switch x := v.(type) {
	case nil:
		return false
	case bool:
		return !x
	case float64:
		if x > -1e9 && x < 1e9 {
			return x + 1
		}
		return float64(0)
	case string:
		return x + "~"
	case []any:
		out := make([]any, len(x))
		for i := range x {
			out[i] = clone(x[i])
		}
		if len(x) == 0 || c.W(4) == 0 {
			return append(out, nil)
		}
		i := c.W(len(x))
		out[i] = nearMiss(c, x[i])
		return out
	case map[string]any:
		out := make(map[string]any, len(x)+1)
		for k, e := range x {
			out[k] = clone(e)
		}
		ks := sortedKeys(x)
		if len(ks) == 0 || c.W(4) == 0 {
			out["zz~"] = nil
			return out
		}
		k := ks[c.W(len(ks))]
		out[k] = nearMiss(c, x[k])
		return out
	}
	return "~" // not a canonical value: any string differs from it
}

func allCanon(vs []any) bool {
	for _, v := range vs {
		if !canon(v) {
			return false
		}
	}
	return true
}

// viaJSON returns the schema decoded from the JSON text of doc (or fallback if that fails). The
// same text is decoded a second time into another Schema value, which its owner then edits in
// place (the constant behind its Const pointer, the elements of its Enum slice): two values
// decoded separately share nothing, so the edit must not reach the first.
func viaJSON(c *Ctx, doc map[string]any, fallback *jsonschema.Schema) *jsonschema.Schema {
	text := []byte(JSON(doc))
	var a, b jsonschema.Schema
	var ea, eb error
	r := Op(func() { ea = json.Unmarshal(text, &a); eb = json.Unmarshal(text, &b) })
	c.CheckOp("Unmarshal", r)
	if r.Panicked || ea != nil || eb != nil {
		return fallback
	}
	if b.Const != nil {
		*b.Const = "edited by the owner of the second schema"
	}
	for i := range b.Enum {
		b.Enum[i] = "edited by the owner of the second schema"
	}
	c.Probe("schema-decoded-from-json-next-to-an-edited-twin")
	return &a
}

// canon reports whether v is built from nil, bool, float64, string, []any and map[string]any only.
func canon(v any) bool {
	switch x := v.(type) {
	case nil, bool, float64, string:
		return true
	case []any:
		for _, e := range x {
			if !canon(e) {
				return false
			}
		}
		return true
	case map[string]any:
		for _, e := range x {
			if !canon(e) {
				return false
			}
		}
		return true
	}
	return false
}

func typedJSON(v any) string {
	return fmt.Sprintf("%T:%s", v, JSON(v))
}

// driveC12Multi: several arrays are checked against uniqueItems inside ONE Validate call, below
// applicators that swallow a failure (anyOf, not, if, contains), so that whatever the check keeps
// between arrays (tables, seeds) meets a second array after a failed first one.
func driveC12Multi(c *Ctx) {
	n := 2 + c.W(3)
	pool := make([]any, 3+c.W(3))
	for i := range pool {
		pool[i] = GenValue(c, 1)
	}
	arrays := make([]any, n)
	uniq := make([]bool, n)
	lens := make([]int, n)
	var typed []string
	for i := range arrays {
		m := c.W(5)
		a := make([]any, m)
		for j := range a {
			a[j] = clone(pool[c.W(len(pool))]) // arrays share elements with each other
			if c.W(3) == 0 {
				a[j] = rerepr(c, a[j], 1)
			}
		}
		arrays[i] = a
		lens[i] = m
		uniq[i] = true
		for x := 0; x < m; x++ {
			for y := x + 1; y < m; y++ {
				if jsonschema.Equal(a[x], a[y]) {
					uniq[i] = false
				}
			}
		}
		typed = append(typed, typedJSON(a))
	}
	k := 1 + c.W(3)
	u := map[string]any{"uniqueItems": true}
	var doc map[string]any
	want := true
	variant := c.W(4)
	switch variant {
	case 0:
		doc = map[string]any{"items": map[string]any{"anyOf": []any{u, map[string]any{"maxItems": k}}}}
		for i := range arrays {
			want = want && (uniq[i] || lens[i] <= k)
		}
	case 1:
		doc = map[string]any{"items": map[string]any{"not": u}}
		for i := range arrays {
			want = want && !uniq[i]
		}
	case 2:
		doc = map[string]any{"items": map[string]any{"if": u, "then": map[string]any{"minItems": k}}}
		for i := range arrays {
			want = want && (!uniq[i] || lens[i] >= k)
		}
	case 3:
		doc = map[string]any{"contains": u}
		want = false
		for i := range arrays {
			want = want || uniq[i]
		}
	}
	text := JSON(doc)
	c.In("multi-array %s over %q", text, typed)
	c.Distinct("multi|%s|%q", text, typed)
	var schema jsonschema.Schema
	if err := json.Unmarshal([]byte(text), &schema); err != nil {
		c.Fail("C12/definition", "unmarshal", "generated schema does not unmarshal: %v", err)
		return
	}
	var res *jsonschema.Resolved
	var rerr error
	r := Op(func() { res, rerr = schema.Resolve(nil) })
	c.CheckOp("Resolve", r)
	if r.Panicked || rerr != nil {
		c.Fail("C12/definition", "resolve", "Resolve failed: %v %v", r, rerr)
		return
	}
	for ci, mask := range []int{64, 2, 1, 0, 64, 1} {
		simrt.SetHashMask(mask)
		simrt.SetOrderPolicy(ci % simrt.NumOrderPolicies)
		var verr error
		r := Op(func() { verr = res.Validate(arrays) })
		c.CheckOp("Validate", r)
		if r.Panicked {
			c.Fail("C12/definition", "validate-"+r.String(), "Validate of several arrays in one call did not return normally: %s (schema %s, arrays %q)", r.Value, text, typed)
			break
		}
		if (verr == nil) != want {
			c.Fail("C12/definition", "uniqueItems-several-arrays", "configuration %d (mask %d bits): schema %s over arrays %q: valid=%v, the pairwise Equal definition applied array by array says %v (unique: %v, lengths %v); error: %v",
				ci, mask, text, typed, verr == nil, want, uniq, lens, verr)
			if ci > 0 {
				c.Fail("C14/hash-seed-independence", "uniqueItems-several-arrays", "configuration %d differs from the definition only under this seed/collision pattern", ci)
			}
			break
		}
	}
	simrt.SetHashMask(64)
	simrt.SetOrderPolicy(simrt.OrderSorted)
	c.Nontrivial = n >= 2
	c.Probe("kind:uniqueItems-several-arrays-in-one-call")
	if c.logOn {
		c.Sample = map[string]any{"kind": "several arrays in one call", "schema": json.RawMessage(text), "arrays": typed, "definition_valid": want}
	}
}

// driveC12Long: arrays of 65-450 mostly distinct items with one planted duplicate at a chosen
// pair of positions (or none): table-based implementations change behaviour with size (resizing,
// saturation of filters, probing), and which pairs they miss depends on the per-call seed.
func driveC12Long(c *Ctx) {
	n := 65 + c.W(386)
	items := make([]any, n)
	for i := range items {
		switch i % 4 {
		case 0:
			items[i] = float64(i)
		case 1:
			items[i] = fmt.Sprintf("s%d", i)
		case 2:
			items[i] = []any{float64(i), "x"}
		default:
			items[i] = map[string]any{"k": float64(i)}
		}
	}
	want := true
	dup := [2]int{-1, -1}
	if c.W(4) != 0 {
		i := c.W(n)
		j := c.W(n - 1)
		if j >= i {
			j++
		}
		items[j] = rerepr(c, clone(items[i]), 1)
		dup = [2]int{i, j}
		want = false
	}
	c.In("long array n=%d duplicate at %v", n, dup)
	c.Distinct("long|%d|%v", n, dup)
	res, err := (&jsonschema.Schema{UniqueItems: true}).Resolve(nil)
	if err != nil {
		c.Fail("C12/definition", "resolve", "Resolve failed: %v", err)
		return
	}
	for ci := 0; ci < 10; ci++ {
		mask := 64
		if ci%5 == 4 {
			mask = 4 // 16 buckets: long collision lists without quadratic blow-up
		}
		simrt.SetHashMask(mask)
		var verr error
		r := OpBudget(20*DefaultBudget, func() { verr = res.Validate(items) })
		c.CheckOp("Validate", r)
		if r.Panicked {
			c.Fail("C12/definition", "validate-"+r.String(), "Validate of a %d-item array did not return normally: %s", n, r.Value)
			break
		}
		if (verr == nil) != want {
			oracle := "C12/definition"
			if ci > 0 {
				oracle = "C12/seed-independence"
				c.Fail("C14/hash-seed-independence", "uniqueItems-long-array", "call %d (another hash seed) on the same %d-item array: valid=%v, the first call said %v", ci, n, verr == nil, want)
			}
			c.Fail(oracle, "uniqueItems-long-array", "call %d (mask %d bits): uniqueItems over %d items with an Equal pair at %v: valid=%v, want %v; error: %v", ci, mask, n, dup, verr == nil, want, verr)
			break
		}
	}
	simrt.SetHashMask(64)
	c.Nontrivial = dup[0] >= 0
	c.Probe("kind:uniqueItems-long-array")
	if c.logOn {
		c.Sample = map[string]any{"kind": "long array", "length": n, "duplicate_positions": dup, "definition_valid": want}
	}
}

func driveC12(c *Ctx) {
	switch c.W(24) {
	case 0, 1, 2, 3:
		driveC12Multi(c)
		return
	case 4:
		driveC12Long(c)
		return
	}
	mode := c.W(4) // 0,1 uniqueItems; 2 enum; 3 const
	var schema *jsonschema.Schema
	var inst any
	var items []any
	planted := false
	diffRepr := false
	pi, pj := -1, -1
	var nearPairs [][2]int // pairs of positions in items that differ at exactly one place, by construction
	switch mode {
	case 0, 1:
		n := c.W(9)
		if c.W(4) == 0 {
			n = 9 + c.W(16) // long arrays: implementations may switch strategy with size
		}
		items = make([]any, n)
		for i := range items {
			items[i] = GenValue(c, 2)
			if c.W(12) == 0 {
				items[i] = bigObject(c) // objects with many members: size thresholds in the value hash
			}
			if c.W(3) == 0 {
				items[i] = rerepr(c, items[i], 1)
			}
		}
		if n >= 2 && c.W(3) != 0 {
			i := c.W(n)
			j := c.W(n - 1)
			if j >= i {
				j++
			}
			items[j] = rerepr(c, clone0(items[i]), 2)
			planted = true
			pi, pj = i, j
			diffRepr = reflect.TypeOf(items[i]) != reflect.TypeOf(items[j]) || typedJSON(items[i]) != typedJSON(items[j])
		}
		if n >= 2 && c.W(3) == 0 {
			// a near miss of another element: equal everywhere but at one place
			i := c.W(n)
			j := c.W(n - 1)
			if j >= i {
				j++
			}
			if canon(items[i]) {
				items[j] = nearMiss(c, items[i])
				nearPairs = append(nearPairs, [2]int{i, j})
				if planted && (i == pi || i == pj || j == pi || j == pj) {
					planted = false // the planted duplicate was overwritten; others may remain, the definition decides
				}
			}
		}
		schema = &jsonschema.Schema{UniqueItems: true}
		inst = items
		if c.W(6) == 0 { // the array itself in another representation
			inst = rerepr(c, items, 0)
		}
	case 2:
		n := c.W(5)
		vals := make([]any, n)
		numeric := c.W(4) == 0 // a list of numbers, the most common enum there is, in mixed spellings
		for i := range vals {
			vals[i] = GenValue(c, 2)
			if numeric {
				vals[i] = rerepr(c, pick(c, numberPool), 0)
			} else if c.W(3) == 0 {
				vals[i] = rerepr(c, vals[i], 1) // listed values in other Go representations (json.Number, ints)
			}
		}
		schema = &jsonschema.Schema{Enum: vals}
		if c.W(3) == 0 && allCanon(vals) {
			schema = viaJSON(c, map[string]any{"enum": vals}, schema)
		}
		if n > 0 && c.W(2) == 0 {
			inst = rerepr(c, clone0(vals[c.W(n)]), 2)
			planted = true
		} else if n > 0 && c.W(2) == 0 {
			i := c.W(n)
			inst = nearMiss(c, vals[i])
			nearPairs = append(nearPairs, [2]int{i, n})
		} else {
			inst = GenValue(c, 2)
		}
		items = append(append([]any{}, vals...), inst)
	case 3:
		v := GenValue(c, 2)
		schema = &jsonschema.Schema{Const: &v}
		if c.W(2) == 0 && canon(v) {
			schema = viaJSON(c, map[string]any{"const": v}, schema)
		}
		if c.W(2) == 0 {
			inst = rerepr(c, clone0(v), 2)
			planted = true
		} else if c.W(2) == 0 {
			inst = nearMiss(c, v)
			nearPairs = append(nearPairs, [2]int{0, 1})
		} else {
			inst = GenValue(c, 2)
		}
		items = []any{v, inst}
	}
	var typed []string
	for _, it := range items {
		typed = append(typed, typedJSON(it))
	}
	kind := []string{"uniqueItems", "uniqueItems", "enum", "const"}[mode]
	c.In("%s values %q instance %s", kind, typed, typedJSON(inst))
	c.Distinct("%s|%q|%s", kind, typed, typedJSON(inst))

	// The definition, computed with the public Equal.
	var want bool
	var eqPairs [][2]int
	unequalPairs := 0
	eq := func(x, y any) (res bool) {
		r := Op(func() { res = jsonschema.Equal(x, y) })
		c.CheckOp("Equal", r)
		return
	}
	switch mode {
	case 0, 1:
		want = true
		for i := range items {
			for j := i + 1; j < len(items); j++ {
				if eq(items[i], items[j]) {
					want = false
					eqPairs = append(eqPairs, [2]int{i, j})
				} else {
					unequalPairs++
				}
			}
		}
	case 2:
		n := len(items) - 1
		for i := 0; i < n; i++ {
			if eq(items[i], inst) {
				want = true
				eqPairs = append(eqPairs, [2]int{i, n})
			}
		}
	case 3:
		want = eq(items[0], inst)
		if want {
			eqPairs = append(eqPairs, [2]int{0, 1})
		}
	}
	if planted && mode <= 1 && want {
		c.Fail("C11/equal", "rerepr", "a value and its re-representation are not Equal: %q", typed)
	}
	for _, p := range nearPairs {
		// Equal is also asked under the other map orders: the verdicts below are its verdicts
		for k := 0; k < 3; k++ {
			simrt.SetOrderPolicy(simrt.OrderSorted + k)
			if eq(items[p[0]], items[p[1]]) {
				c.Fail("C11/equal", "near-miss", "Equal(%s, %s) holds (map order %s) although the second differs from the first at one place by construction", typed[p[0]], typed[p[1]], policyName(simrt.OrderSorted+k))
				break
			}
		}
		simrt.SetOrderPolicy(simrt.OrderSorted)
		c.Probe("near-miss-pair")
	}
	c.Out("definition says valid=%v (%d equal pairs)", want, len(eqPairs))

	var res *jsonschema.Resolved
	var rerr error
	r := Op(func() { res, rerr = schema.Resolve(nil) })
	c.CheckOp("Resolve", r)
	if r.Panicked || rerr != nil {
		c.Fail("C12/definition", "resolve", "Resolve of an enum/const/uniqueItems schema failed: %v %v", r, rerr)
		return
	}
	ncfg := 8
	if c.Tier == "thorough" {
		ncfg = 24
	}
	masks := []int{64, 2, 1, 0}
	collided := false
	for ci := 0; ci < ncfg; ci++ {
		mask := masks[ci%4]
		policy := simrt.OrderSorted
		if ci >= 4 {
			policy = 1 + simrt.Choose(simrt.SOrder, 0, simrt.NumOrderPolicies-1)
		}
		simrt.SetOrderPolicy(policy)
		simrt.SetHashMask(mask)
		var verr error
		r := Op(func() { verr = res.Validate(inst) })
		c.CheckOp("Validate", r)
		if r.Panicked {
			c.Fail("C12/definition", "validate-"+r.String(), "Validate did not return normally: %s", r.Value)
			return
		}
		if ci == 0 {
			c.Out("verdict %s", verdict(verr))
		}
		if (verr == nil) != want {
			oracle := "C12/definition"
			if ci > 0 {
				oracle = "C12/seed-independence"
				// the same call gave another verdict under another hash seed / collision pattern / map order
				c.Fail("C14/hash-seed-independence", kind, "configuration %d (mask %d bits, order %s): %s verdict valid=%v differs from configuration 0 for the same schema and instance %s", ci, mask, policyName(policy), kind, verr == nil, typedJSON(inst))
			}
			c.Fail(oracle, kind, "configuration %d (mask %d bits, order %s): %s over %q (instance %s): valid=%v, pairwise Equal says %v (equal pairs %v); error: %v",
				ci, mask, policyName(policy), kind, typed, typedJSON(inst), verr == nil, want, eqPairs, verr)
			return
		}
		if mask < 64 && unequalPairs >= 1 && len(items) >= 3 {
			collided = true
		}
	}
	simrt.SetHashMask(64)
	simrt.SetOrderPolicy(simrt.OrderSorted)
	// The same Resolved is asked about further instances: whatever it remembers from earlier
	// calls must not change a verdict.
	if mode >= 2 {
		listed := items[:len(items)-1]
		for h, nh := 0, 2+c.W(4); h < nh && len(listed) > 0; h++ {
			var hi any
			src := listed[c.W(len(listed))]
			switch c.W(4) {
			case 0:
				hi = GenValue(c, 2)
			case 1:
				if canon(src) {
					hi = nearMiss(c, src)
				} else {
					hi = GenValue(c, 1)
				}
			default:
				hi = rerepr(c, clone0(src), 2)
			}
			hwant := false
			for _, l := range listed {
				if eq(l, hi) {
					hwant = true
				}
			}
			var verr error
			r := Op(func() { verr = res.Validate(hi) })
			c.CheckOp("Validate", r)
			if r.Panicked {
				c.Fail("C12/definition", "validate-"+r.String(), "Validate did not return normally: %s", r.Value)
				return
			}
			if (verr == nil) != hwant {
				c.Fail("C12/definition", kind+"-history", "later call %d on the same Resolved: %s over %q, instance %s: valid=%v, Equal to a listed value=%v; error: %v", h, kind, typed[:len(listed)], typedJSON(hi), verr == nil, hwant, verr)
				return
			}
			c.Probe("later-instance-on-same-resolved")
		}
	}
	// The hash law.
	if simrt.HashValue != nil {
		for _, p := range eqPairs {
			for k := 0; k < 3; k++ {
				seed := simrt.MakeSeed(0)
				var hx, hy maphash.Hash
				hx.SetSeed(seed)
				hy.SetSeed(seed)
				simrt.SetOrderPolicy(simrt.OrderSorted + k)
				r1 := Op(func() { simrt.HashValue(&hx, reflect.ValueOf(items[p[0]])) })
				simrt.SetOrderPolicy(simrt.OrderShuffle)
				r2 := Op(func() { simrt.HashValue(&hy, reflect.ValueOf(items[p[1]])) })
				c.CheckOp("hashValue", r1)
				c.CheckOp("hashValue", r2)
				if r1.Panicked || r2.Panicked {
					continue
				}
				if hx.Sum64() != hy.Sum64() {
					c.Fail("C12/hash-law", "hashValue", "Equal(%s, %s) holds but their digests differ under the same seed", typed[p[0]], typed[p[1]])
					break
				}
				c.Probe("hash-law-pair-checked")
			}
		}
	} else {
		c.Probe("hash-helper-absent")
	}
	simrt.SetOrderPolicy(simrt.OrderSorted)
	c.Nontrivial = (planted && diffRepr && len(items) >= 3) || collided
	c.Probe("kind:" + kind)
	if planted {
		c.Probe("planted-duplicate")
	}
	if collided {
		c.Probe("collision-path-compared-unequal-items")
	}
	if c.logOn {
		c.Sample = map[string]any{"kind": kind, "values": typed, "instance": typedJSON(inst), "definition_valid": want, "equal_pairs": eqPairs, "configurations": ncfg}
	}
}

// bigObject returns an object with 17-48 members.
func bigObject(c *Ctx) any {
	m := map[string]any{}
	for i, n := 0, 17+c.W(32); i < n; i++ {
		m[fmt.Sprintf("k%02d", i)] = float64(c.W(3))
	}
	return m
}

// clone0 deep-copies canonical JSON values.
func clone0(v any) any { return clone(v) }
