package sim

import (
	"encoding/json"
	"fmt"
	"reflect"

	"github.com/google/jsonschema-go/jsonschema"
	"verif.local/simrt"
)

func init() {
	Drivers["C13"] = driveC13
	Levels["C13"] = "exploration"
	Rules["C13"] = "one run = k=2..6 virtual goroutines x <=4 operations each over values built before they start: 1-3 shared Resolved (keyword-rich, annotation-centred, multi-document, dynamic-scope, mixed-draft, wide and defaults worlds), one ResolveOptions value per schema shared by all goroutines,, the shared Schema trees, shared read-only instances and one shared ForOptions; operations Validate / ApplyDefaults(private instance, also struct holders) / Marshal / Unmarshal / CloneSchemas / Resolve(private simulated Loader) / ForType(shared options) / Equal; a seeded scheduler decides who runs at every operation boundary and plants pre-emptions inside operations (density 0-3; in a third of the runs all goroutines hammer one shared value with one family of operations - Validate/ApplyDefaults, Marshal/Clone/Unmarshal, ForType, or Resolve - under dense pre-emption), with memo-table miss injection and cold or warm caches; executed in a plain and in a -race build. Oracles: no race report with a jsonschema frame in both stacks; every result equals the result of the same operation run sequentially on an independently built identical world; a sequential re-run on the shared values after the join still matches. Non-trivial = >=1 pre-emption inside an operation AND two goroutines operate on the same shared value. Distinct = hash(world, operations) x goroutine-schedule hash."
	Assumptions["C13"] = append([]string{
		"the hand-off between virtual goroutines uses raw pipe system calls from //go:norace code, so the execution is serial and repeatable while the race detector still sees the library's accesses as concurrent; the detector is only as good as its shadow memory (4 cells per 8 bytes)",
		"a race report is attributed to the library only if both stacks contain a frame of package jsonschema; any other report is a harness bug and makes the check exit 2",
		"documents returned by a Loader are owned by the Resolve call that asked for them: every simulated Loader call returns a fresh value",
		"sync.Pool, GC timing and goroutines started by the library itself (none today) are outside the seam",
	}, CommonAssumptions...)
}

type c13schema struct {
	Kind  string // rich | universe | dynamic | defaults
	Text  string
	Uni   *Universe
	Dyn   *dynWorld
	Insts []any
	Base  string
}

type c13op struct {
	Kind    int
	S, I, J int
}

var c13opNames = []string{"Validate", "ApplyDefaults", "Marshal", "Unmarshal", "CloneSchemas", "Resolve", "ForType", "Equal", "ApplyDefaults(struct)"}

func (o c13op) String() string {
	return fmt.Sprintf("%s(s%d,%d,%d)", c13opNames[o.Kind], o.S, o.I, o.J)
}

type c13live struct {
	ropts     []*jsonschema.ResolveOptions // per schema: options value shared by every Resolve of that schema (nil where each call needs a private simulated Loader)
	fresh     []*jsonschema.Schema         // shared trees that nothing has resolved yet: Resolve ops race on their FIRST resolution
	schemas   []*jsonschema.Schema
	resolveds []*jsonschema.Resolved
	opts      *jsonschema.ForOptions
}

type c13world struct {
	c       *Ctx
	schemas []*c13schema
	tsSpec  []string // names (in TSTypes) overridden in TypeSchemas
	ignore  bool
}

func (w *c13world) loaderFor(s *c13schema) jsonschema.Loader {
	switch {
	case s.Uni != nil:
		return s.Uni.LoaderFor(w.c, nil, &LoaderLog{})
	case s.Dyn != nil:
		return s.Dyn.loader()
	}
	return nil
}

func (w *c13world) build() (*c13live, string) {
	l := &c13live{}
	for i, s := range w.schemas {
		var sch jsonschema.Schema
		var res *jsonschema.Resolved
		var err error
		r := Op(func() {
			if err = json.Unmarshal([]byte(s.Text), &sch); err != nil {
				return
			}
			res, err = sch.Resolve(&jsonschema.ResolveOptions{BaseURI: s.Base, Loader: w.loaderFor(s), ValidateDefaults: s.Kind == "defaults"})
			if err != nil && s.Kind == "defaults" {
				// some default does not validate: resolve without the option
				sch = jsonschema.Schema{}
				if err = json.Unmarshal([]byte(s.Text), &sch); err == nil {
					res, err = sch.Resolve(nil)
				}
			}
		})
		w.c.CheckOp("Resolve (building the shared values)", r)
		if r.Panicked {
			return nil, fmt.Sprintf("schema %d: %v", i, r)
		}
		if err != nil {
			return nil, fmt.Sprintf("schema %d does not unmarshal/resolve: %v", i, err)
		}
		l.schemas = append(l.schemas, &sch)
		l.resolveds = append(l.resolveds, res)
		var fresh jsonschema.Schema
		if rf := Op(func() { json.Unmarshal([]byte(s.Text), &fresh) }); rf.Panicked {
			return nil, fmt.Sprintf("schema %d: %v", i, rf)
		}
		l.fresh = append(l.fresh, &fresh)
		var ro *jsonschema.ResolveOptions
		if w.loaderFor(s) == nil {
			// the caller's options value, shared by all goroutines that resolve this schema; nothing has used it yet
			ro = &jsonschema.ResolveOptions{BaseURI: s.Base, ValidateDefaults: false}
		}
		l.ropts = append(l.ropts, ro)
	}
	l.opts = &jsonschema.ForOptions{IgnoreInvalidTypes: w.ignore}
	if len(w.tsSpec) > 0 {
		l.opts.TypeSchemas = map[reflect.Type]*jsonschema.Schema{}
		for k, tn := range w.tsSpec {
			l.opts.TypeSchemas[TSTypes[tn]] = overrideSchema(tn, k)
		}
	}
	return l, ""
}

// exec runs one operation and returns its result digest.
func (w *c13world) exec(l *c13live, op c13op) string {
	s := w.schemas[op.S]
	inst := func(i int) any { return s.Insts[i%len(s.Insts)] }
	switch op.Kind {
	case 0:
		return verdict(l.resolveds[op.S].Validate(inst(op.I)))
	case 1:
		v := clone(inst(op.I))
		err := l.resolveds[op.S].ApplyDefaults(&v)
		return fmt.Sprintf("%v %s", err != nil, JSON(v))
	case 2:
		tree := l.schemas[op.S]
		if op.J%2 == 1 {
			tree = l.fresh[op.S] // a tree nothing has resolved yet (or that is being resolved right now)
		}
		b, err := json.Marshal(tree)
		return fmt.Sprintf("%v %s", err != nil, b)
	case 3:
		var sch jsonschema.Schema
		err := json.Unmarshal([]byte(s.Text), &sch)
		if err != nil {
			return "err"
		}
		b, err := json.Marshal(&sch)
		return fmt.Sprintf("%v %s", err != nil, b)
	case 4:
		tree := l.schemas[op.S]
		if op.J%2 == 1 {
			tree = l.fresh[op.S]
		}
		cl := tree.CloneSchemas()
		if op.I%2 == 0 && cl != nil {
			// the clone is the caller's own tree: edit it (field assignments, insertions into its
			// schema-valued maps and slices) while other goroutines use the original
			for _, n := range allSchemas(cl) {
				n.Title = "edited clone"
				if n.Properties != nil {
					n.Properties["injected-into-clone"] = &jsonschema.Schema{Type: "null"}
				}
				if n.Defs != nil {
					n.Defs["injected-into-clone"] = &jsonschema.Schema{}
				}
				if n.AllOf != nil {
					n.AllOf = append(n.AllOf, &jsonschema.Schema{Title: "appended to clone"})
				}
			}
		}
		b, err := json.Marshal(cl)
		return fmt.Sprintf("%v %s", err != nil, b)
	case 5:
		tree := l.schemas[op.S]
		if op.I%2 == 0 {
			tree = l.fresh[op.S]
		}
		ro := l.ropts[op.S]
		if ro == nil || op.J%3 == 0 {
			ro = &jsonschema.ResolveOptions{BaseURI: s.Base, Loader: w.loaderFor(s)}
		}
		res, err := tree.Resolve(ro)
		if err != nil {
			return "err"
		}
		out := "ok"
		for i := 0; i < 3 && i < len(s.Insts); i++ {
			out += " " + verdict(res.Validate(s.Insts[i]))
		}
		return out
	case 6:
		t := TypeCorpus[(op.I*8+op.J)%len(TypeCorpus)]
		if len(w.tsSpec) > 0 && op.J%2 == 0 {
			// a type that mentions one of the overridden types: the shared entries are actually used
			if rel := CorpusMentioning[w.tsSpec[op.I%len(w.tsSpec)]]; len(rel) > 0 {
				t = TypeCorpus[rel[(op.I/2+op.J/2)%len(rel)]]
			}
		}
		sch, err := jsonschema.ForType(t.T, l.opts)
		if err != nil {
			return "err"
		}
		b, err := json.Marshal(sch)
		return fmt.Sprintf("%v %s", err != nil, b)
	case 7:
		return fmt.Sprint(jsonschema.Equal(inst(op.I), inst(op.J)))
	case 8:
		holders := []any{&tTags{}, &tOuter{}, &tEmbedded{}, &tBasic{}}
		err := l.resolveds[op.S].ApplyDefaults(holders[op.I%len(holders)])
		return fmt.Sprint(err != nil)
	}
	return "?"
}

func genC13World(c *Ctx) *c13world {
	w := &c13world{c: c}
	ns := 1 + c.W(3)
	for i := 0; i < ns; i++ {
		s := &c13schema{}
		switch c.W(8) {
		case 0:
			s.Kind = "universe"
			s.Uni = GenUniverse(c, UniOpts{Draft7: c.W(4) == 0, MaxDocs: 3})
			s.Text = s.Uni.Docs[0].Text
			s.Base = s.Uni.BaseURI
			for _, p := range s.Uni.Probes(c, 1) {
				s.Insts = append(s.Insts, p.Instance(p.Target.Marker))
				if len(s.Insts) < 4 {
					s.Insts = append(s.Insts, p.Instance("ZZ"))
				}
				if len(s.Insts) >= 6 {
					break
				}
			}
		case 1, 2:
			s.Kind = "dynamic"
			s.Dyn = genDynWorld(c)
			s.Text = s.Dyn.RootDoc
			s.Base = dynRootURI
			for _, call := range s.Dyn.history(c) {
				s.Insts = append(s.Insts, call.Inst)
				if len(s.Insts) >= 6 {
					break
				}
			}
		case 3:
			s.Kind = "defaults"
			d := GenDefaultsWorld(c)
			s.Text = d.Text
			s.Insts = d.Insts
		case 5:
			// mixed dialects: a root of one draft with an embedded resource that declares the other
			// one, each using keywords whose meaning depends on the draft in force
			s.Kind = "mixed-draft"
			s.Text, s.Insts = GenMixedDraft(c)
		case 6:
			// verdicts that hinge on annotations handed up by in-place applicators: the per-call
			// state of Validate that concurrent calls on one Resolved must not share
			s.Kind = "annotations"
			doc := GenAnnotationDoc(c)
			s.Text = JSON(doc)
			for j, n := 0, 3+c.W(3); j < n; j++ {
				s.Insts = append(s.Insts, GenInstanceFor(c, doc, 3))
			}
		case 4:
			s.Kind = "wide"
			doc := GenWideDoc(c)
			s.Text = JSON(doc)
			for j := 0; j < 3; j++ {
				s.Insts = append(s.Insts, GenInstanceFor(c, doc, 3))
			}
		default:
			s.Kind = "rich"
			doc := GenSchemaDoc(c, c.W(5) == 0)
			s.Text = JSON(doc)
			n := 2 + c.W(4)
			for j := 0; j < n; j++ {
				s.Insts = append(s.Insts, GenInstanceFor(c, doc, 3))
			}
		}
		w.schemas = append(w.schemas, s)
	}
	tsSeen := map[string]bool{}
	for i := c.W(4); i > 0; i-- {
		n := pick(c, sortedKeys(TSTypes))
		if !tsSeen[n] {
			tsSeen[n] = true
			w.tsSpec = append(w.tsSpec, n)
		}
	}
	w.ignore = c.W(2) == 0
	return w
}

// focusFamilies: in focus mode all goroutines draw their operations from one family and apply
// them to one shared value, so that calls of the same kind overlap.
var focusFamilies = [][]int{
	{0, 0, 1, 1, 8}, // Validate / ApplyDefaults on one Resolved
	{2, 2, 4, 3},    // Marshal / CloneSchemas / Unmarshal of one Schema tree
	{6},             // ForType with the shared options
	{5, 5, 0},       // Resolve of one shared (fresh) Schema tree, and Validate
	{5, 2, 4, 5},    // Resolve of one shared tree while others Marshal / CloneSchemas the same tree
}

type c13res struct {
	d string
	r OpResult
}

func driveC13(c *Ctx) {
	w := genC13World(c)
	k := 2 + c.W(5)
	ops := make([][]c13op, k)
	touched := map[int]int{}
	// Focus mode: every goroutine hammers ONE shared Resolved with Validate/ApplyDefaults,
	// so that calls with different per-call state overlap.
	focus := c.W(3) == 0
	focusS := c.W(len(w.schemas))
	focusFam := []int{0, 0, 0, 1, 2, 3, 4}[c.W(7)]
	if focusFam == 1 {
		for i, sc := range w.schemas {
			if sc.Kind == "wide" {
				focusS = i // Marshal/Clone/Unmarshal of the widest tree
			}
		}
	}
	for g := range ops {
		n := 1 + c.W(4)
		for i := 0; i < n; i++ {
			op := c13op{Kind: []int{0, 0, 0, 1, 2, 3, 4, 5, 6, 6, 7, 8, 1}[c.W(13)], S: c.W(len(w.schemas)), I: c.W(8), J: c.W(8)}
			if focus {
				fam := focusFamilies[focusFam]
				op.Kind = fam[c.W(len(fam))]
				op.S = focusS
			}
			ops[g] = append(ops[g], op)
			touched[op.S] |= 1 << g
		}
	}
	var texts []string
	for _, s := range w.schemas {
		texts = append(texts, s.Kind+":"+s.Text)
	}
	c.In("schemas %q", texts)
	c.In("ops %v typeschemas=%v ignore=%v", ops, w.tsSpec, w.ignore)
	c.Distinct("%q|%v|%v", texts, ops, w.tsSpec)
	density := c.W(4)
	if focus && density < 2 {
		density = 2 + c.W(2)
	}
	cold := c.W(2) == 0
	miss := []int{0, 1, 2}[c.W(3)]
	policy := simrt.Choose(simrt.SOrder, 0, simrt.NumOrderPolicies)
	hot := [][2]int{{0, 1}, {1, 8}, {1, 2}}[c.W(3)] // pre-emption probability at synchronisation points
	c.In("density=%d hot=%d/%d cold=%v miss=%d/4 order=%s", density, hot[0], hot[1], cold, miss, policyName(policy))

	// The concurrent run, on fresh shared values.
	live, why := w.build()
	if live == nil {
		c.Probe("world-rejected")
		c.Out("world rejected: %s", why)
		return
	}
	if cold && simrt.ResetCaches != nil {
		simrt.ResetCaches()
		c.Probe("cold-caches")
	}
	simrt.SetOrderPolicy(policy)
	simrt.SetCacheMiss(miss, 4)
	simrt.SetPreemptDensity(density)
	simrt.SetHotPreempt(hot[0], hot[1])
	got := make([][]c13res, k)
	bodies := make([]func(), k)
	for g := range ops {
		g := g
		got[g] = make([]c13res, len(ops[g]))
		bodies[g] = func() {
			for i, op := range ops[g] {
				var d string
				r := Op(func() { d = w.exec(live, op) })
				got[g][i] = c13res{d, r}
			}
		}
	}
	simrt.RunConcurrent(bodies)
	st := simrt.GetStats()
	simrt.SetPreemptDensity(0)
	simrt.SetHotPreempt(0, 1)
	simrt.SetCacheMiss(0, 1)
	simrt.SetOrderPolicy(simrt.OrderSorted)
	// Reference: the same operations one after another on an independently built world. It is
	// computed AFTER the concurrent run, so that process-wide caches the simulator cannot reset
	// are as cold as they can be when the goroutines start.
	ref := make([][]c13res, k)
	refLive, why := w.build()
	if refLive == nil {
		c.Fail("C14/repeatability", "build", "the world built the first time but not the second: %s", why)
		return
	}
	for g := range ops {
		ref[g] = make([]c13res, len(ops[g]))
		for i, op := range ops[g] {
			var d string
			r := Op(func() { d = w.exec(refLive, op) })
			c.CheckOp(op.String(), r)
			ref[g][i] = c13res{d, r}
			c.Out("ref g%d %s = %.120s %v", g, op, d, r)
		}
	}
	compare := func(phase string, got [][]c13res) {
		for g := range ops {
			for i, op := range ops[g] {
				a, b := ref[g][i], got[g][i]
				if a.d != b.d || a.r.Panicked != b.r.Panicked {
					c.Fail("C13/sequential-equivalence", c13opNames[op.Kind], "%s: goroutine %d op %d %s gave %.200q %v; run sequentially it gives %.200q %v (k=%d, density %d, %d switches, %d pre-emptions)",
						phase, g, i, op, b.d, b.r, a.d, a.r, k, density, st.Switches, st.Preemptions)
					return
				}
			}
		}
	}
	for g := range ops {
		for i, op := range ops[g] {
			if r := got[g][i].r; r.Panicked && !ref[g][i].r.Panicked {
				c.CheckOp("concurrent "+op.String(), r)
			}
		}
	}
	compare("concurrent run", got)
	// No lasting damage: sequential re-run on the same shared values.
	after := make([][]c13res, k)
	for g := range ops {
		after[g] = make([]c13res, len(ops[g]))
		for i, op := range ops[g] {
			var d string
			r := Op(func() { d = w.exec(live, op) })
			after[g][i] = c13res{d, r}
		}
	}
	compare("sequential re-run after the join", after)
	shared := false
	for _, m := range touched {
		if m&(m-1) != 0 {
			shared = true
		}
	}
	c.Nontrivial = st.Preemptions >= 1 && shared
	c.Distinct("%x", st.SchedHash)
	for _, s := range w.schemas {
		c.Probe("world:" + s.Kind)
	}
	if focus {
		c.Probe(fmt.Sprintf("focus-mode:family%d:%s", focusFam, w.schemas[focusS].Kind))
	}
	if st.CacheMissesInj > 0 {
		c.Probe("memo-miss-injected")
	}
	if c.logOn {
		c.Sample = map[string]any{"schemas": texts, "goroutines": k, "operations": fmt.Sprint(ops), "density": density, "cold": cold,
			"switches": st.Switches, "preemptions": st.Preemptions}
	}
}

// GenMixedDraft returns a schema whose root is of one draft and which embeds a resource that
// declares the other one, each using keywords whose meaning depends on the draft in force, and
// instances that exercise them. No model of the "right" verdict is attached: the worlds are used
// where only determinism, purity and race-freedom are asserted.
func GenMixedDraft(c *Ctx) (string, []any) {
	old := `{"$schema":"http://json-schema.org/draft-07/schema#","$id":"http://m.test/old.json","items":[{"type":"integer"}],"additionalItems":false,"dependencies":{"x":["y"]}}`
	neu := `{"$schema":"https://json-schema.org/draft/2020-12/schema","$id":"http://m.test/new.json","prefixItems":[{"type":"string"}],"items":false,"dependentRequired":{"x":["y"]}}`
	var text string
	if c.W(2) == 0 {
		text = `{"$schema":"https://json-schema.org/draft/2020-12/schema","properties":{"a":{"$ref":"#/$defs/old"},"b":{"prefixItems":[{"type":"string"}],"items":false},"c":{"$ref":"#/$defs/old"}},"$defs":{"old":` + old + `}}`
	} else {
		text = `{"$schema":"http://json-schema.org/draft-07/schema#","properties":{"a":{"$ref":"#/definitions/new"},"b":{"items":[{"type":"integer"}],"additionalItems":false},"c":{"$ref":"#/definitions/new"}},"definitions":{"new":` + neu + `}}`
	}
	vals := []any{[]any{1.0, "x"}, []any{"s", 1.0}, []any{1.0}, []any{"s"}, map[string]any{"x": 1.0}, map[string]any{"x": 1.0, "y": 2.0}, []any{}, "str"}
	var insts []any
	for j := 0; j < 5; j++ {
		insts = append(insts, map[string]any{"a": pick(c, vals), "b": pick(c, vals), "c": pick(c, vals)})
	}
	return text, insts
}
