package sim

import (
	"encoding/json"
	"fmt"
	"reflect"

	"github.com/google/jsonschema-go/jsonschema"
	"verif.local/simrt"
)

// C13cold: a process restart. Everything the library builds on first use (package tables, memo
// caches, per-type and per-Resolved lazily computed state) is gone; the very first calls into
// the library come from several goroutines at once. The check runs this driver with ONE run per
// operating-system process, so that every run really is a cold start; run as a later index of a
// longer-lived process (the determinism sample does that) it is an ordinary warm concurrent run
// and must give the same results.
var processRuns int

func init() {
	Drivers["C13cold"] = driveC13Cold
	Levels["C13cold"] = "exploration"
	Rules["C13cold"] = "one run = one cold process start: 2-5 goroutines make the FIRST calls into the library of this process at once (Unmarshal+Resolve+Validate of a shared text, Unmarshal+CloneSchemas+Marshal, ForType+Marshal with shared options, Unmarshal+Marshal, Unmarshal+Resolve+ApplyDefaults, Equal), 1-3 operations each, under the seeded scheduler with pre-emption at synchronisation points; afterwards the same operations are executed one after another in the now warm process. Oracles: every concurrent cold result equals the warm sequential one; no operation panics; (race build) no data race in library code. Non-trivial = the run was the first of its process and >=1 pre-emption happened. Distinct = hash(world, operations) x schedule hash."
	Assumptions["C13cold"] = CommonAssumptions
}

type coldOp struct {
	Kind    int
	S, I, J int
}

var coldOpNames = []string{"Resolve+Validate", "Clone+Marshal", "ForType", "Unmarshal+Marshal", "Resolve+ApplyDefaults", "Equal"}

func (o coldOp) String() string {
	return fmt.Sprintf("%s(s%d,%d,%d)", coldOpNames[o.Kind], o.S, o.I, o.J)
}

func driveC13Cold(c *Ctx) {
	processRuns++
	first := processRuns == 1
	w := genC13World(c)
	k := 2 + c.W(4)
	ops := make([][]coldOp, k)
	fam := c.W(4) // 0 mixed; 1 all Resolve; 2 all ForType; 3 Clone/Marshal/Resolve of the same text
	for g := range ops {
		for i, n := 0, 1+c.W(3); i < n; i++ {
			op := coldOp{Kind: c.W(6), S: c.W(len(w.schemas)), I: c.W(8), J: c.W(8)}
			switch fam {
			case 1:
				op.Kind = 0
			case 2:
				op.Kind = 2
			case 3:
				op.Kind = []int{0, 1, 3, 1}[c.W(4)]
				op.S = 0
			}
			ops[g] = append(ops[g], op)
		}
	}
	var texts []string
	for _, s := range w.schemas {
		texts = append(texts, s.Kind+":"+s.Text)
	}
	c.In("schemas %q", texts)
	c.In("ops %v typeschemas=%v ignore=%v", ops, w.tsSpec, w.ignore)
	c.Distinct("%q|%v|%v", texts, ops, w.tsSpec)
	density := 1 + c.W(3)
	hot := [][2]int{{1, 8}, {1, 2}, {1, 1}}[c.W(3)]
	policy := simrt.Choose(simrt.SOrder, 0, simrt.NumOrderPolicies)
	c.In("density=%d hot=%d/%d order=%s", density, hot[0], hot[1], policyName(policy))

	// Options shared by the goroutines: built from struct literals, without calling the library.
	opts := &jsonschema.ForOptions{IgnoreInvalidTypes: w.ignore}
	if len(w.tsSpec) > 0 {
		opts.TypeSchemas = map[reflect.Type]*jsonschema.Schema{}
		for i, tn := range w.tsSpec {
			opts.TypeSchemas[TSTypes[tn]] = &jsonschema.Schema{Type: "string", Title: fmt.Sprintf("cold-override-%s-%d", tn, i)}
		}
	}
	ropts := make([]*jsonschema.ResolveOptions, len(w.schemas)) // shared by every Resolve of a schema that needs no Loader
	for i, s := range w.schemas {
		if w.loaderFor(s) == nil {
			ropts[i] = &jsonschema.ResolveOptions{BaseURI: s.Base}
		}
	}
	exec := func(op coldOp) string {
		s := w.schemas[op.S]
		inst := func(i int) any { return s.Insts[i%len(s.Insts)] }
		switch op.Kind {
		case 0, 4:
			var sch jsonschema.Schema
			if err := json.Unmarshal([]byte(s.Text), &sch); err != nil {
				return "unmarshal-err"
			}
			ro := ropts[op.S]
			if ro == nil || op.J%3 == 0 {
				ro = &jsonschema.ResolveOptions{BaseURI: s.Base, Loader: w.loaderFor(s)}
			}
			res, err := sch.Resolve(ro)
			if err != nil {
				return "resolve-err"
			}
			if op.Kind == 4 {
				v := clone(inst(op.I))
				err := res.ApplyDefaults(&v)
				return fmt.Sprintf("%v %s", err != nil, JSON(v))
			}
			out := "ok"
			for i := 0; i < 3 && i < len(s.Insts); i++ {
				out += " " + verdict(res.Validate(inst(op.I+i)))
			}
			return out
		case 1, 3:
			var sch jsonschema.Schema
			if err := json.Unmarshal([]byte(s.Text), &sch); err != nil {
				return "unmarshal-err"
			}
			tree := &sch
			if op.Kind == 1 {
				tree = sch.CloneSchemas()
			}
			b, err := json.Marshal(tree)
			return fmt.Sprintf("%v %s", err != nil, b)
		case 2:
			t := TypeCorpus[(op.I*8+op.J)%len(TypeCorpus)]
			if len(w.tsSpec) > 0 && op.J%2 == 0 {
				if rel := CorpusMentioning[w.tsSpec[op.I%len(w.tsSpec)]]; len(rel) > 0 {
					t = TypeCorpus[rel[(op.I/2+op.J/2)%len(rel)]]
				}
			}
			o := opts
			if op.J%3 == 0 {
				o = nil
			}
			sch, err := jsonschema.ForType(t.T, o)
			if err != nil {
				return "err"
			}
			b, err := json.Marshal(sch)
			return fmt.Sprintf("%v %s", err != nil, b)
		default:
			return fmt.Sprint(jsonschema.Equal(inst(op.I), inst(op.J)))
		}
	}

	simrt.SetOrderPolicy(policy)
	simrt.SetPreemptDensity(density)
	simrt.SetHotPreempt(hot[0], hot[1])
	got := make([][]c13res, k)
	bodies := make([]func(), k)
	for g := range ops {
		g := g
		got[g] = make([]c13res, len(ops[g]))
		bodies[g] = func() {
			for i, op := range ops[g] {
				var d string
				r := Op(func() { d = exec(op) })
				got[g][i] = c13res{d, r}
			}
		}
	}
	simrt.RunConcurrent(bodies)
	st := simrt.GetStats()
	simrt.SetPreemptDensity(0)
	simrt.SetHotPreempt(0, 1)
	simrt.SetOrderPolicy(simrt.OrderSorted)

	// The same operations, one after another, in the now warm process.
	for g := range ops {
		for i, op := range ops[g] {
			var d string
			r := Op(func() { d = exec(op) })
			c.CheckOp(op.String(), r)
			c.Out("warm g%d %s = %.120s %v", g, op, d, r)
			b := got[g][i]
			if b.r.Panicked && !r.Panicked {
				c.CheckOp("concurrent first use: "+op.String(), b.r)
			}
			if b.d != d || b.r.Panicked != r.Panicked {
				c.Fail("C13/sequential-equivalence", "first-use-"+coldOpNames[op.Kind], "goroutine %d op %d %s, among the first library calls of the process (first run of the process: %v), gave %.200q %v; run again sequentially it gives %.200q %v (k=%d, density %d, hot %d/%d, %d switches, %d pre-emptions, %d at synchronisation points)",
					g, i, op, first, b.d, b.r, d, r, k, density, hot[0], hot[1], st.Switches, st.Preemptions, st.HotPreemptions)
				return
			}
		}
	}
	c.Nontrivial = first && st.Preemptions >= 1
	c.Distinct("%x", st.SchedHash)
	if first {
		c.Probe("cold-process-start")
	} else {
		c.Probe("warm-process")
	}
	if st.HotPreemptions > 0 {
		c.Probe("pre-empted-at-synchronisation-point")
	}
	for _, s := range w.schemas {
		c.Probe("world:" + s.Kind)
	}
	if c.logOn {
		c.Sample = map[string]any{"schemas": texts, "goroutines": k, "operations": fmt.Sprint(ops), "density": density, "first_run_of_process": first,
			"switches": st.Switches, "preemptions": st.Preemptions, "hot_preemptions": st.HotPreemptions}
	}
}
