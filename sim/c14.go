package sim

import (
	"encoding/json"
	"fmt"
	"net/url"
	"strings"

	"github.com/google/jsonschema-go/jsonschema"
	"verif.local/simrt"
)

func init() {
	Drivers["C14"] = driveC14
	Levels["C14"] = "exploration"
	Rules["C14"] = "one run = one generated schema document (keyword-rich, cluster or annotation-centred, 2020-12 or draft-07, optionally with Loader-supplied documents) + 2-5 instances (one in four with members behind Go pointers, one pointer shared by two members) + a history of 4-12 Resolve/Validate/Marshal calls, executed on ONE schema tree under the canonical schedule and then under N further schedules (map order per site visit: reversed/rotated/shuffled/mixed; hash seed; collision mask). Oracles: purity fingerprints after every call, repeatability inside a history, equal result vectors across schedules. Non-trivial = >=2 controlled site visits served a >=2-entry map in non-canonical order AND the history contains both a valid and an invalid verdict. Distinct = hash(schema text, instances, history) x order-vector hash."
}

type histOp struct {
	Kind int // 0 Resolve, 1 Validate, 2 Marshal, 3 Resolve of a CloneSchemas copy
	R    int // which earlier Resolve result (index modulo those available)
	Inst int
	VD   bool // Resolve with ValidateDefaults
}

func (o histOp) String() string {
	switch o.Kind {
	case 0:
		if o.VD {
			return "Resolve(ValidateDefaults)"
		}
		return "Resolve"
	case 1:
		return fmt.Sprintf("Validate(R%d,inst%d)", o.R, o.Inst)
	case 3:
		return "Resolve(CloneSchemas())"
	}
	return "Marshal"
}

// schedule is one point of the schedule space of a sequential history.
type schedule struct {
	Policy int
	Mask   int
	Seed   uint64
}

func (s schedule) String() string {
	return fmt.Sprintf("order=%s mask=%d orderseed=%d", policyName(s.Policy), s.Mask, s.Seed)
}

func policyName(p int) string {
	return [...]string{"sorted", "reversed", "per-visit", "shuffle", "rotate"}[p]
}

var maskPool = []int{64, 64, 2, 1, 0}

// genSchedules: canonical first, then reversed, then drawn ones.
func genSchedules(c *Ctx, n int) []schedule {
	out := []schedule{{simrt.OrderSorted, 64, 0}, {simrt.OrderReversed, 64, 1}}
	for len(out) < n {
		p := 1 + simrt.Choose(simrt.SOrder, 0, simrt.NumOrderPolicies-1)
		m := maskPool[simrt.Choose(simrt.SHash, 0, len(maskPool))]
		out = append(out, schedule{p, m, uint64(len(out))})
	}
	return out[:n]
}

func (s schedule) apply(c *Ctx) {
	simrt.SetOrderPolicy(s.Policy)
	simrt.SetHashMask(s.Mask)
	simrt.SetStreamSeed(simrt.SOrder, simrt.Mix(c.Seed, uint64(c.Index)<<8|s.Seed))
}

func verdict(err error) string {
	if err == nil {
		return "valid"
	}
	return "invalid"
}

func driveC14(c *Ctx) {
	draft7 := c.W(5) == 0
	var uni *Universe
	var dyn *dynWorld
	var doc map[string]any
	var text string
	var insts []any
	switch c.W(9) {
	case 8:
		text, insts = GenMixedDraft(c)
		c.Probe("world:mixed-draft")
	case 0, 1:
		uni = GenUniverse(c, UniOpts{Draft7: draft7})
		doc = uni.Docs[0].Body
		text = JSON(doc)
		for _, p := range uni.Probes(c, 2) {
			insts = append(insts, p.Instance(p.Target.Marker), p.Instance("ZZ"))
			if len(insts) >= 6 {
				break
			}
		}
		c.Probe("world:universe")
	case 2:
		dyn = genDynWorldOpt(c, true)
		text = dyn.RootDoc
		for _, call := range dyn.history(c) {
			insts = append(insts, call.Inst)
			if len(insts) >= 6 {
				break
			}
		}
		c.Probe("world:dynamic-scope")
	default:
		doc = GenSchemaDoc(c, draft7)
		text = JSON(doc)
		if strings.Count(text, `"$anchor":"A1"`) > 1 || strings.Count(text, `"$anchor":"A2"`) > 1 {
			c.Probe("same-anchor-declared-twice")
		}
		n := 2 + c.W(4)
		for i := 0; i < n; i++ {
			insts = append(insts, GenInstanceFor(c, doc, 3))
		}
		c.Probe("world:keyword-rich")
	}
	ninst := len(insts)
	if ninst > 0 && c.W(4) == 0 {
		// an instance built from Go values: members behind pointers, one pointer shared by two
		// members (the instance kinds Validate steps through; JSON decoding never makes them)
		i := c.W(ninst)
		if withPointers(c, insts[i]) {
			c.Probe("instance-with-shared-go-pointer")
		}
	}
	c.In("schema %s", text)
	for i := range insts {
		c.In("inst%d %s", i, JSON(insts[i]))
	}
	nops := 4 + c.W(9)
	ops := []histOp{{Kind: 0}}
	for len(ops) < nops {
		switch k := c.W(6); {
		case k == 0:
			ops = append(ops, histOp{Kind: 0, VD: c.W(3) == 0})
		case k == 1 && c.W(3) == 0:
			ops = append(ops, histOp{Kind: 3})
		case k == 1:
			ops = append(ops, histOp{Kind: 2})
		default:
			ops = append(ops, histOp{Kind: 1, R: c.W(4), Inst: c.W(ninst)})
		}
	}
	c.In("history %v", ops)
	c.Distinct("%s|%v|%v", text, JSON(insts), ops)

	var schema jsonschema.Schema
	var uerr error
	r := Op(func() { uerr = json.Unmarshal([]byte(text), &schema) })
	c.CheckOp("Unmarshal", r)
	if r.Panicked || uerr != nil {
		c.Probe("unmarshal-failed")
		c.Out("unmarshal %v %v", r, uerr != nil)
		return
	}
	nsched := 6
	if c.Tier == "thorough" {
		nsched = 14
	}
	scheds := genSchedules(c, nsched)
	schemaFP := Fingerprint(&schema)
	instFP := make([]string, ninst)
	for i := range insts {
		instFP[i] = Fingerprint(insts[i])
	}
	var base []string
	sawValid, sawInvalid := false, false
	for si, sch := range scheds {
		sch.apply(c)
		c.logf("schedule %d: %s", si, sch)
		var rs []*jsonschema.Resolved
		var vec []string
		seen := map[string]string{}
		for oi, op := range ops {
			var d, sig string
			switch op.Kind {
			case 0, 3:
				var res *jsonschema.Resolved
				var err error
				tree := &schema
				if op.Kind == 3 {
					// an equal tree: what the later Validate calls say about it must be what they
					// say about the original
					r := Op(func() { tree = schema.CloneSchemas() })
					c.CheckOp("CloneSchemas", r)
					if r.Panicked || tree == nil {
						vec = append(vec, r.String())
						continue
					}
				}
				opts := &jsonschema.ResolveOptions{ValidateDefaults: op.VD}
				var calls []string // the sequence of loader requests is an observable effect of Resolve
				if uni != nil {
					opts.BaseURI = uni.BaseURI
					inner := uni.Loader(c, nil)
					opts.Loader = func(u *url.URL) (*jsonschema.Schema, error) { calls = append(calls, u.String()); return inner(u) }
				}
				if dyn != nil {
					opts.BaseURI = dynRootURI
					inner := dyn.loader()
					opts.Loader = func(u *url.URL) (*jsonschema.Schema, error) { calls = append(calls, u.String()); return inner(u) }
				}
				loaderWasNil, optsBefore := opts.Loader == nil, *opts
				r := Op(func() { res, err = tree.Resolve(opts) })
				c.CheckOp("Resolve", r)
				if (opts.Loader == nil) != loaderWasNil || opts.BaseURI != optsBefore.BaseURI || opts.ValidateDefaults != optsBefore.ValidateDefaults {
					// the options value belongs to the caller, who may pass it to the next call or to another goroutine
					c.Fail("C14/purity", "ResolveOptions", "schedule %d (%s) op %d %s: Resolve changed the caller's ResolveOptions (Loader nil before: %v, after: %v; BaseURI %q -> %q)", si, sch, oi, op, loaderWasNil, opts.Loader == nil, optsBefore.BaseURI, opts.BaseURI)
				}
				if r.Panicked {
					d = r.String()
				} else if err != nil {
					d = "err"
				} else {
					d = "ok"
					rs = append(rs, res)
				}
				if len(calls) > 0 {
					d += fmt.Sprintf(" loader requests %v", calls)
				}
				sig = "resolve"
				if op.VD {
					sig = "resolve-vd"
				}
			case 1:
				if len(rs) == 0 {
					vec = append(vec, "skip")
					continue
				}
				res := rs[op.R%len(rs)]
				var err error
				r := Op(func() { err = res.Validate(insts[op.Inst]) })
				c.CheckOp("Validate", r)
				if r.Panicked {
					d = r.String()
				} else {
					d = verdict(err)
					if err == nil {
						sawValid = true
					} else {
						sawInvalid = true
					}
				}
				sig = fmt.Sprintf("validate:%d", op.Inst)
				if fpn := Fingerprint(insts[op.Inst]); fpn != instFP[op.Inst] {
					c.Fail("C14/purity-instance", "Validate", "schedule %d (%s) op %d %s changed the instance: now %s", si, sch, oi, op, JSON(insts[op.Inst]))
					instFP[op.Inst] = fpn
				}
			case 2:
				var b []byte
				var err error
				r := Op(func() { b, err = json.Marshal(&schema) })
				c.CheckOp("Marshal", r)
				switch {
				case r.Panicked:
					d = r.String()
				case err != nil:
					d = "err"
				default:
					d = string(b)
				}
				sig = "marshal"
			}
			// the tree is fingerprinted after every call under the first two schedules and
			// at the end of each later pass (a mutation does not depend on the schedule)
			if si >= 2 && oi != len(ops)-1 {
				// skip
			} else if fpn := Fingerprint(&schema); fpn != schemaFP {
				c.Fail("C14/purity-schema", op.String()[:7], "schedule %d (%s) op %d %s modified the caller's schema tree", si, sch, oi, op)
				schemaFP = fpn
			}
			if prev, ok := seen[sig]; ok && prev != d {
				c.Fail("C14/repeatability", sig[:7], "schedule %d (%s): op %d %s gave %.80q, an earlier identical call gave %.80q", si, sch, oi, op, d, prev)
			}
			seen[sig] = d
			vec = append(vec, d)
			if si == 0 {
				c.Out("%s = %.200s", op, d)
			}
		}
		if si == 0 {
			base = vec
			continue
		}
		for i := range vec {
			if vec[i] != base[i] {
				c.Fail("C14/schedule-independence", ops[i].String()[:7], "op %d %s gave %.120q under the canonical schedule and %.120q under schedule %d (%s)", i, ops[i], base[i], vec[i], si, sch)
				break
			}
		}
	}
	st := simrt.GetStats()
	c.Nontrivial = st.OrderNoncanon >= 2 && sawValid && sawInvalid
	c.Distinct("%x", st.OrderHash)
	if sawValid {
		c.Probe("valid-verdict")
	}
	if sawInvalid {
		c.Probe("invalid-verdict")
	}
	if st.Sum64Masked > 0 {
		c.Probe("hash-collision-forced")
	}
	if c.logOn {
		c.Sample = map[string]any{"schema": json.RawMessage(text), "instances": insts, "history": fmt.Sprint(ops),
			"schedules": fmt.Sprint(scheds), "canonical_results": truncAll(base, 80)}
	}
}

func truncAll(xs []string, n int) []string {
	out := make([]string, len(xs))
	for i, x := range xs {
		if len(x) > n {
			x = x[:n] + "…"
		}
		out[i] = x
	}
	return out
}

func init() {
	Assumptions["C14"] = append([]string{
		"observable result = verdict (nil / non-nil), marshaled bytes, Resolve ok/err; error text is not part of it (it legitimately depends on which of two failing properties is visited first)",
		"documents returned by the Loader are owned by the resolver and are outside the purity oracle",
		"the fingerprint sees exported fields, map entries, slice elements, dynamic types and pointer aliasing; slice capacity is not observed",
	}, CommonAssumptions...)
}

// withPointers rewrites, in place, members of the objects in v (two levels deep) as *any values;
// in one object with >= 2 members two members get the SAME pointer. It reports whether a pointer
// was shared.
func withPointers(c *Ctx, v any) bool {
	var objs []map[string]any
	var walk func(x any, d int)
	walk = func(x any, d int) {
		if m, ok := x.(map[string]any); ok {
			objs = append(objs, m)
			if d > 0 {
				for _, k := range sortedKeys(m) {
					walk(m[k], d-1)
				}
			}
		}
	}
	walk(v, 1)
	shared := false
	for _, m := range objs {
		ks := sortedKeys(m)
		if len(ks) >= 2 && !shared && c.W(2) == 0 {
			a := c.W(len(ks))
			b := c.W(len(ks) - 1)
			if b >= a {
				b++
			}
			val := m[ks[a]]
			if _, isPtr := val.(*any); isPtr {
				continue
			}
			p := &val
			m[ks[a]], m[ks[b]] = p, p
			shared = true
			continue
		}
		for _, k := range ks {
			if _, isPtr := m[k].(*any); !isPtr && c.W(4) == 0 {
				val := m[k]
				m[k] = &val
			}
		}
	}
	return shared
}
