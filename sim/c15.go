package sim

// DefaultsWorld is a schema with defaults and instances for ApplyDefaults.
type DefaultsWorld struct {
	Doc   map[string]any
	Text  string
	Insts []any
}

var defValuePool = []any{1.0, "d", true, nil, []any{1.0, "x"}, map[string]any{"k": 1.0}, map[string]any{}, 0.0, ""}

// genDefSchema generates a subschema over properties with defaults at depth <= d.
func genDefSchema(c *Ctx, depth int) map[string]any {
	s := map[string]any{}
	if c.W(3) == 0 {
		s["type"] = pick(c, []string{"object", "string", "integer", "array"})
	}
	if c.W(3) == 0 {
		s["default"] = clone(pick(c, defValuePool))
	}
	if depth > 0 && c.W(4) != 0 {
		props := map[string]any{}
		for _, k := range subset(c, []string{"a", "b", "c", "d"}, 1, 3) {
			props[k] = genDefSchema(c, depth-1)
		}
		s["properties"] = props
		if c.W(2) == 0 {
			rs := subset(c, []string{"a", "b", "c", "d"}, 1, 2)
			arr := make([]any, len(rs))
			for i, r := range rs {
				arr[i] = r
			}
			s["required"] = arr
		}
		if c.W(5) == 0 {
			// an object-valued default that itself lacks nested defaults
			s["default"] = map[string]any{"a": map[string]any{}}
		}
	}
	return s
}

func genDefInstance(c *Ctx, s map[string]any, depth int) any {
	props, _ := s["properties"].(map[string]any)
	if depth <= 0 || c.W(6) == 0 {
		return clone(pick(c, []any{5.0, "s", nil, []any{}, map[string]any{}, map[string]any{"zz": 1.0}, true}))
	}
	m := map[string]any{}
	for _, k := range sortedKeys(props) {
		switch c.W(4) {
		case 0:
			sub, _ := props[k].(map[string]any)
			m[k] = genDefInstance(c, sub, depth-1)
		case 1:
			m[k] = clone(pick(c, []any{7.0, "present", nil, map[string]any{}}))
		}
	}
	if c.W(4) == 0 {
		m["other"] = "x"
	}
	return m
}

// GenDefaultsWorld draws a defaults world from the world stream.
func GenDefaultsWorld(c *Ctx) *DefaultsWorld {
	d := &DefaultsWorld{}
	d.Doc = genDefSchema(c, 3)
	if _, ok := d.Doc["properties"]; !ok {
		d.Doc["properties"] = map[string]any{"a": genDefSchema(c, 2), "b": genDefSchema(c, 1)}
	}
	delete(d.Doc, "default")
	d.Text = JSON(d.Doc)
	n := 2 + c.W(4)
	for i := 0; i < n; i++ {
		d.Insts = append(d.Insts, genDefInstance(c, d.Doc, 3))
	}
	return d
}
