package sim

import (
	"encoding/json"
	"fmt"
	"strings"

	"github.com/google/jsonschema-go/jsonschema"
	"verif.local/simrt"
)

func init() {
	Drivers["C15"] = driveC15
	Levels["C15"] = "exploration"
	Rules["C15"] = "one run = 1-3 generated schemas with defaults of every JSON type at depth <=3 (with and without required, on object and non-object subschemas, object-valued defaults that need nested completion) and two instances (any subset of the properties present, non-objects at any position, undeclared keys), driven through a history of 4-10 steps: ApplyDefaults(R_j), apply again, client edits (delete a key, set a key, replace a subtree, mutate in place a container that an earlier application inserted), switch instance, schema evolution (the Schema in use or a CloneSchemas copy is edited and resolved again); a third of the applications go through a typed holder (map[string]map[string]any, map[string][]any, map[string]json.RawMessage) that the client wipes afterwards; schemas may carry dependentSchemas with defaults of their own; the whole history is repeated under 4 map-order schedules. Oracles (relational checker written from the property text): everything present before is present and equal after; every new key is a non-required declared property whose value is the declared default completed only by legitimate insertions, or a container that transitively holds >=1 declared default; a second application changes nothing; the states are identical under every schedule; Resolve(ValidateDefaults) succeeds iff every default validates against its declaring subschema resolved on its own. Non-trivial = a step inserted >=1 default at depth >=2 into an instance that already had sibling values. Distinct = hash(schemas, instances, history) x order-vector hash."
	Assumptions["C15"] = append([]string{
		"the checker demands that what is inserted is legitimate, not that everything possible is inserted (a no-op ApplyDefaults does not violate the property as written); how many defaults were filled is a statistic",
		"instances are canonical encoding/json values held in an `any` through a pointer; typed holders, whose mismatches are documented to panic, are not generated",
		"defaults worlds are reference-free, so a subschema resolved on its own means the same as in its document",
	}, CommonAssumptions...)
}

// DefaultsWorld is a schema with defaults and instances for ApplyDefaults.
type DefaultsWorld struct {
	Doc   map[string]any
	Text  string
	Insts []any
}

var defValuePool = []any{1.0, "d", true, nil, []any{1.0, "x"}, map[string]any{"k": 1.0}, map[string]any{}, 0.0, "",
	[]any{map[string]any{"h": "x", "p": []any{80.0, 443.0}}}, map[string]any{"k": []any{map[string]any{"z": 1.0}}}, []any{[]any{1.0}, []any{}}}

// genDefSchema generates a subschema over properties with defaults at depth <= d.
func genDefSchema(c *Ctx, depth int) map[string]any {
	s := map[string]any{}
	if c.W(3) == 0 {
		s["type"] = pick(c, []string{"object", "string", "integer", "array"})
	}
	if c.W(3) == 0 {
		s["default"] = clone(pick(c, defValuePool))
	}
	if depth > 0 && c.W(4) != 0 {
		props := map[string]any{}
		for _, k := range subset(c, []string{"a", "b", "c", "d"}, 1, 3) {
			props[k] = genDefSchema(c, depth-1)
		}
		s["properties"] = props
		if c.W(2) == 0 {
			rs := subset(c, []string{"a", "b", "c", "d"}, 1, 2)
			arr := make([]any, len(rs))
			for i, r := range rs {
				arr[i] = r
			}
			s["required"] = arr
		}
		if c.W(5) == 0 {
			// an object-valued default that itself lacks nested defaults
			s["default"] = map[string]any{"a": map[string]any{}}
		}
		if c.W(5) == 0 {
			// dependent subschemas that declare defaults of their own, triggered by members that
			// may themselves be filled in by a default. ApplyDefaults honours defaults on
			// properties only: whatever it makes of these, applying twice changes nothing more.
			deps := map[string]any{}
			for _, k := range subset(c, []string{"a", "b", "c", "d"}, 1, 2) {
				deps[k] = map[string]any{"properties": map[string]any{pick(c, []string{"a", "b", "c", "d"}): genDefSchema(c, 0)}}
			}
			s["dependentSchemas"] = deps
		}
	}
	return s
}

func genDefInstance(c *Ctx, s map[string]any, depth int) any {
	props, _ := s["properties"].(map[string]any)
	if depth <= 0 || c.W(6) == 0 {
		return clone(pick(c, []any{5.0, "s", nil, []any{}, map[string]any{}, map[string]any{"zz": 1.0}, true}))
	}
	m := map[string]any{}
	for _, k := range sortedKeys(props) {
		switch c.W(4) {
		case 0:
			sub, _ := props[k].(map[string]any)
			m[k] = genDefInstance(c, sub, depth-1)
		case 1:
			m[k] = clone(pick(c, []any{7.0, "present", nil, map[string]any{}}))
		}
	}
	if c.W(4) == 0 {
		m["other"] = "x"
	}
	return m
}

// GenDefaultsWorld draws a defaults world from the world stream.
func GenDefaultsWorld(c *Ctx) *DefaultsWorld {
	d := &DefaultsWorld{}
	d.Doc = genDefSchema(c, 3)
	if _, ok := d.Doc["properties"]; !ok {
		d.Doc["properties"] = map[string]any{"a": genDefSchema(c, 2), "b": genDefSchema(c, 1)}
	}
	delete(d.Doc, "default")
	d.Text = JSON(d.Doc)
	n := 2 + c.W(4)
	for i := 0; i < n; i++ {
		d.Insts = append(d.Insts, genDefInstance(c, d.Doc, 3))
	}
	if c.W(3) == 0 {
		// an object whose members are all objects, or all arrays: it can also be held in a Go map
		// with that element type
		props, _ := d.Doc["properties"].(map[string]any)
		if ks := sortedKeys(props); len(ks) > 0 {
			m := map[string]any{}
			arrays := c.W(3) == 0
			for _, k := range subset(c, ks, 1, len(ks)) {
				if arrays {
					m[k] = clone(pick(c, []any{[]any{}, []any{1.0}, []any{map[string]any{}}}))
					continue
				}
				sub, _ := props[k].(map[string]any)
				if o, ok := genDefInstance(c, sub, 2).(map[string]any); ok {
					m[k] = o
				} else {
					m[k] = map[string]any{}
				}
			}
			d.Insts[c.W(len(d.Insts))] = m
		}
	}
	return d
}

// ---------------------------------------------------------------------------
// The relational checker (written from the property text)

// defaultsCheck compares an instance before and after an application of the
// schema document s. It returns the number of declared defaults that were
// inserted, or a description of the first illegitimate change.
func defaultsCheck(before, after any, s map[string]any, path string) (int, string) {
	bm, bok := before.(map[string]any)
	am, aok := after.(map[string]any)
	if !bok || !aok {
		// A value that is not an object must be left exactly as it was.
		if typedJSONDeep(before) != typedJSONDeep(after) {
			return 0, fmt.Sprintf("%s: value already present changed from %s to %s", orRoot(path), JSON(before), JSON(after))
		}
		return 0, ""
	}
	props, _ := s["properties"].(map[string]any)
	required := map[string]bool{}
	if rs, ok := s["required"].([]any); ok {
		for _, r := range rs {
			if k, ok := r.(string); ok {
				required[k] = true
			}
		}
	}
	n := 0
	for k, bv := range bm {
		av, ok := am[k]
		if !ok {
			return 0, fmt.Sprintf("%s/%s: a value that was present has been removed", path, k)
		}
		sub, isSchema := props[k].(map[string]any)
		if !isSchema {
			if typedJSONDeep(bv) != typedJSONDeep(av) {
				return 0, fmt.Sprintf("%s/%s: value already present (no subschema declared for it) changed from %s to %s", path, k, JSON(bv), JSON(av))
			}
			continue
		}
		m, msg := defaultsCheck(bv, av, sub, path+"/"+k)
		if msg != "" {
			return 0, msg
		}
		n += m
	}
	for k, av := range am {
		if _, was := bm[k]; was {
			continue
		}
		sub, isSchema := props[k].(map[string]any)
		if !isSchema {
			return 0, fmt.Sprintf("%s/%s: inserted %s, but the schema declares no such property", path, k, JSON(av))
		}
		if required[k] {
			return 0, fmt.Sprintf("%s/%s: a required property was filled with %s", path, k, JSON(av))
		}
		if d, has := sub["default"]; has {
			// the declared default, completed with nested defaults
			m, msg := defaultsCheck(d, av, sub, path+"/"+k)
			if msg != "" {
				return 0, fmt.Sprintf("%s/%s: inserted %s, which is not the declared default %s completed with nested defaults (%s)", path, k, JSON(av), JSON(d), msg)
			}
			n += m + 1
			continue
		}
		// no default declared here: must be a container holding at least one declared default
		if _, isObj := av.(map[string]any); !isObj {
			return 0, fmt.Sprintf("%s/%s: inserted %s, but the subschema declares no default", path, k, JSON(av))
		}
		m, msg := defaultsCheck(map[string]any{}, av, sub, path+"/"+k)
		if msg != "" {
			return 0, msg
		}
		if m == 0 {
			return 0, fmt.Sprintf("%s/%s: inserted the container %s, which holds no declared default", path, k, JSON(av))
		}
		n += m
	}
	return n, ""
}

func orRoot(p string) string {
	if p == "" {
		return "(root)"
	}
	return p
}

// typedJSONDeep renders a canonical JSON value with the Go types of its leaves,
// so that 1 -> "1" or float64 -> int changes are seen.
func typedJSONDeep(v any) string {
	switch x := v.(type) {
	case map[string]any:
		s := "{"
		for _, k := range sortedKeys(x) {
			s += fmt.Sprintf("%q:%s,", k, typedJSONDeep(x[k]))
		}
		return s + "}"
	case []any:
		s := "["
		for _, e := range x {
			s += typedJSONDeep(e) + ","
		}
		return s + "]"
	}
	return fmt.Sprintf("%T:%v", v, v)
}

// walkDefaults calls f for every subschema of doc (under properties) that declares a default.
func walkSchemas(doc map[string]any, f func(s map[string]any)) {
	f(doc)
	for _, kw := range []string{"properties", "dependentSchemas"} {
		if props, ok := doc[kw].(map[string]any); ok {
			for _, k := range sortedKeys(props) {
				if sub, ok := props[k].(map[string]any); ok {
					walkSchemas(sub, f)
				}
			}
		}
	}
}

// containersIn collects every map and non-empty slice nested anywhere inside v (through arrays too).
func containersIn(v any, out *[]any) {
	switch x := v.(type) {
	case map[string]any:
		*out = append(*out, x)
		for _, k := range sortedKeys(x) {
			containersIn(x[k], out)
		}
	case []any:
		if len(x) > 0 {
			*out = append(*out, x)
		}
		for _, e := range x {
			containersIn(e, out)
		}
	}
}

// mutateInPlace changes one container nested in v without replacing it.
func mutateInPlace(v any, pick int) bool {
	var cs []any
	containersIn(v, &cs)
	if len(cs) == 0 {
		return false
	}
	switch x := cs[pick%len(cs)].(type) {
	case map[string]any:
		x["mutated-by-client"] = "x"
		for _, k := range sortedKeys(x) {
			if k != "mutated-by-client" {
				if _, isC := x[k].(map[string]any); !isC {
					if _, isS := x[k].([]any); !isS {
						x[k] = "overwritten-by-client"
					}
				}
			}
		}
	case []any:
		x[0] = "overwritten-by-client"
	}
	return true
}

type c15step struct {
	Kind int // 0 apply, 1 apply again (idempotence), 2 delete key, 3 set key, 4 replace subtree, 5 mutate inserted container, 6 switch instance, 7 validate, 8 mutate an inserted container in place, drop it from the instance, apply the same schema again
	R    int
	A, B int
}

func (s c15step) String() string {
	return fmt.Sprintf("%s(%d,%d,%d)", []string{"apply", "apply-twice", "delete", "set", "replace", "mutate-inserted", "switch", "validate", "mutate-drop-reapply", "evolve-schema"}[s.Kind], s.R, s.A, s.B)
}

// pathsOf lists the object-valued positions of an instance (as key paths).
func objectPaths(v any, prefix []string, out *[][]string) {
	m, ok := v.(map[string]any)
	if !ok {
		return
	}
	*out = append(*out, append([]string(nil), prefix...))
	for _, k := range sortedKeys(m) {
		objectPaths(m[k], append(prefix, k), out)
	}
}

func at(v any, path []string) map[string]any {
	for _, k := range path {
		m, ok := v.(map[string]any)
		if !ok {
			return nil
		}
		v = m[k]
	}
	m, _ := v.(map[string]any)
	return m
}

// insertedPaths lists the key paths that exist in after but not in before (top-most only).
func insertedPaths(before, after any, prefix []string) [][]string {
	am, ok := after.(map[string]any)
	if !ok {
		return nil
	}
	bm, _ := before.(map[string]any)
	var out [][]string
	for _, k := range sortedKeys(am) {
		p := append(append([]string(nil), prefix...), k)
		if bv, was := bm[k]; !was {
			out = append(out, p)
		} else {
			out = append(out, insertedPaths(bv, am[k], p)...)
		}
	}
	return out
}

func depthOfInsert(before, after any, d int) int {
	bm, _ := before.(map[string]any)
	am, ok := after.(map[string]any)
	if !ok {
		return 0
	}
	best := 0
	for k, av := range am {
		bv, was := bm[k]
		if !was {
			if d+1 > best {
				best = d + 1
			}
			if x := depthOfInsert(map[string]any{}, av, d+1); x > best {
				best = x
			}
			continue
		}
		if x := depthOfInsert(bv, av, d+1); x > best {
			best = x
		}
	}
	return best
}

func driveC15(c *Ctx) {
	nw := 1 + c.W(3)
	var worlds []*DefaultsWorld
	for i := 0; i < nw; i++ {
		worlds = append(worlds, GenDefaultsWorld(c))
		c.In("schema%d %s", i, worlds[i].Text)
	}
	inst0 := []any{clone(worlds[0].Insts[0]), clone(worlds[len(worlds)-1].Insts[1%len(worlds[len(worlds)-1].Insts)])}
	c.In("instances %s", JSON(inst0))
	nsteps := 4 + c.W(7)
	steps := []c15step{{Kind: 0, R: 0}}
	for len(steps) < nsteps {
		k := []int{0, 0, 1, 1, 2, 3, 4, 5, 5, 6, 7, 8, 8, 9, 9}[c.W(15)]
		steps = append(steps, c15step{Kind: k, R: c.W(nw), A: c.W(16), B: c.W(16)})
	}
	c.In("history %v", steps)
	c.Distinct("%s|%v", JSON(inst0), steps)
	for _, w := range worlds {
		c.Distinct("%s", w.Text)
	}

	// ValidateDefaults clause.
	validWorld := make([]bool, len(worlds))
	for wi, w := range worlds {
		allValid := true
		walkSchemas(w.Doc, func(s map[string]any) {
			d, has := s["default"]
			if !has {
				return
			}
			var sub jsonschema.Schema
			if err := json.Unmarshal([]byte(JSON(s)), &sub); err != nil {
				return
			}
			res, err := sub.Resolve(nil)
			if err != nil {
				return
			}
			var verr error
			r := Op(func() { verr = res.Validate(clone(d)) })
			c.CheckOp("Validate(default)", r)
			if verr != nil {
				allValid = false
			}
		})
		var sch jsonschema.Schema
		if err := json.Unmarshal([]byte(w.Text), &sch); err != nil {
			c.Fail("C15/validate-defaults", "unmarshal", "generated schema does not unmarshal: %v", err)
			return
		}
		var rerr error
		r := Op(func() { _, rerr = sch.Resolve(&jsonschema.ResolveOptions{ValidateDefaults: true}) })
		c.CheckOp("Resolve(ValidateDefaults)", r)
		if !r.Panicked && (rerr == nil) != allValid {
			c.Fail("C15/validate-defaults", fmt.Sprint(allValid), "schema %d: Resolve(ValidateDefaults) ok=%v, but every default validates against its declaring subschema = %v (error: %v)", wi, rerr == nil, allValid, rerr)
		}
		validWorld[wi] = allValid
		if allValid {
			c.Probe("all-defaults-valid")
		} else {
			c.Probe("some-default-invalid")
		}
	}

	// The recommended sequence is Resolve(ValidateDefaults) then ApplyDefaults: use it for some worlds.
	withVD := make([]bool, len(worlds))
	for wi := range worlds {
		withVD[wi] = validWorld[wi] && c.W(2) == 0
	}
	c.In("validate-defaults %v", withVD)
	scheds := []schedule{{simrt.OrderSorted, 64, 0}, {simrt.OrderReversed, 64, 1}, {simrt.OrderPerVisit, 64, 2}, {simrt.OrderShuffle, 64, 3}}
	var baseStates []string
	nontrivial := false
	inserted := 0
	for si, sch := range scheds {
		sch.apply(c)
		var rs []*jsonschema.Resolved
		var ss []*jsonschema.Schema // the Schema values behind rs
		var docs []map[string]any   // the model of each schema as it stands (schemas evolve, step kind 9)
		for wi, w := range worlds {
			var s jsonschema.Schema
			var res *jsonschema.Resolved
			var err error
			r := Op(func() {
				json.Unmarshal([]byte(w.Text), &s)
				res, err = s.Resolve(&jsonschema.ResolveOptions{ValidateDefaults: withVD[wi]})
			})
			c.CheckOp("Resolve", r)
			if r.Panicked {
				return
			}
			if err != nil {
				c.Fail("C15/legitimate", "resolve", "schema %d does not resolve: %v", wi, err)
				return
			}
			if withVD[wi] {
				c.Probe("resolved-with-ValidateDefaults")
			}
			rs = append(rs, res)
			ss = append(ss, &s)
			docs = append(docs, clone(w.Doc).(map[string]any))
		}
		insts := []any{clone(inst0[0]), clone(inst0[1])}
		cur := 0
		var lastInserted [][]string // object paths in the current instance that an application created
		var states []string
		lastR := 0
		for ti, st := range steps {
			if st.Kind == 8 {
				// isolation across applications: what the client does to a value that
				// ApplyDefaults inserted must not change what a later application inserts
				if len(lastInserted) == 0 {
					states = append(states, typedJSONDeep(insts[0])+"|"+typedJSONDeep(insts[1]))
					continue
				}
				p := lastInserted[st.A%len(lastInserted)]
				if parent := at(insts[cur], p[:len(p)-1]); parent != nil {
					mutateInPlace(parent[p[len(p)-1]], st.B)
					delete(parent, p[len(p)-1])
				}
				c.Probe("mutate-drop-reapply")
				st = c15step{Kind: 0, R: lastR}
			}
			doc := docs[st.R]
			switch st.Kind {
			case 9:
				// The schema evolves: a copy (CloneSchemas) of the Schema value in use - or that value
				// itself - is edited below one of its property subschemas (a default added or removed,
				// "required" set or dropped) and resolved again; later applications use the new one.
				tree := ss[st.R]
				how := "in place"
				if st.A%2 == 0 {
					r := Op(func() { tree = tree.CloneSchemas() })
					c.CheckOp("CloneSchemas", r)
					if r.Panicked || tree == nil {
						break
					}
					how = "on a CloneSchemas copy"
				}
				if !evolveSchema(tree, doc, st.A/2, st.B) {
					break
				}
				var res *jsonschema.Resolved
				var err error
				r := Op(func() { res, err = tree.Resolve(nil) })
				c.CheckOp("Resolve (evolved schema)", r)
				if r.Panicked {
					return
				}
				if err != nil {
					c.Fail("C15/legitimate", "resolve-evolved", "schedule %d step %d: schema %d edited %s to %s does not resolve: %v", si, ti, st.R, how, JSON(doc), err)
					return
				}
				ss[st.R], rs[st.R] = tree, res
				c.Probe("schema-evolved-" + strings.ReplaceAll(how, " ", "-"))
				if si == 0 {
					c.Out("step %d schema %d edited %s: now %s", ti, st.R, how, JSON(doc))
				}
			case 0, 1:
				lastR = st.R
				before := clone(insts[cur])
				typed := 0
				if st.B%3 == 0 {
					typed = 1 + st.A%3
				}
				err, r, wasTyped, again := applyTo(rs[st.R], &insts[cur], typed, st.Kind == 1)
				c.CheckOp("ApplyDefaults", r)
				if again != "" {
					c.Fail("C15/idempotence", "second-application", "schedule %d step %d: a second application of the same schema to the same typed holder changed it %s (schema %s)", si, ti, again, JSON(doc))
					return
				}
				if wasTyped {
					c.Probe("typed-map-holder")
					if err != nil && !r.Panicked {
						// a default that does not decode into the element type: an error is the answer;
						// what the holder looks like then is not specified, the client discards it
						insts[cur] = clone(before)
					}
				}
				if r.Panicked {
					c.Fail("C15/legitimate", "applydefaults-"+r.String(), "schedule %d step %d: ApplyDefaults(&%s) did not return normally: %s", si, ti, JSON(before), r.Value)
					return
				}
				if err != nil {
					c.Probe("applydefaults-error")
				}
				n, msg := defaultsCheck(before, insts[cur], doc, "")
				if msg != "" {
					c.Fail("C15/legitimate", classify(msg), "schedule %d step %d %s: schema %s, instance before %s, after %s: %s", si, ti, st, JSON(doc), JSON(before), JSON(insts[cur]), msg)
					return
				}
				inserted += n
				if n > 0 && depthOfInsert(before, insts[cur], 0) >= 2 {
					if bm, ok := before.(map[string]any); ok && len(bm) > 0 {
						nontrivial = true
					}
				}
				// remember which containers this application created
				lastInserted = insertedPaths(before, insts[cur], nil)
				if st.Kind == 1 && !wasTyped {
					// (for a typed holder the second application was made on the same holder, inside applyTo:
					// what comes back through JSON may no longer fit that holder type)
					first := typedJSONDeep(insts[cur])
					_, r, _, _ := applyTo(rs[st.R], &insts[cur], 0, false)
					c.CheckOp("ApplyDefaults", r)
					if typedJSONDeep(insts[cur]) != first {
						c.Fail("C15/idempotence", "second-application", "schedule %d step %d: a second application of the same schema changed the instance from %s to %s (schema %s)", si, ti, first, typedJSONDeep(insts[cur]), JSON(doc))
						return
					}
					c.Probe("idempotence-checked")
				}
			case 2, 3, 4:
				var ps [][]string
				objectPaths(insts[cur], nil, &ps)
				if len(ps) == 0 {
					break
				}
				m := at(insts[cur], ps[st.A%len(ps)])
				ks := sortedKeys(m)
				switch st.Kind {
				case 2:
					if len(ks) > 0 {
						delete(m, ks[st.B%len(ks)])
					}
				case 3:
					m[[]string{"a", "b", "c", "d"}[st.B%4]] = clone(defValuePool[st.A%len(defValuePool)])
				case 4:
					if len(ks) > 0 {
						m[ks[st.B%len(ks)]] = map[string]any{}
					}
				}
			case 5:
				if len(lastInserted) > 0 {
					p := lastInserted[st.A%len(lastInserted)]
					if parent := at(insts[cur], p[:len(p)-1]); parent != nil && mutateInPlace(parent[p[len(p)-1]], st.B) {
						c.Probe("client-mutated-inserted-container")
					}
				}
			case 6:
				cur = 1 - cur
				lastInserted = nil
			case 7:
				inst := insts[cur]
				fpb := typedJSONDeep(inst)
				r := Op(func() { rs[st.R].Validate(inst) })
				c.CheckOp("Validate", r)
				if typedJSONDeep(inst) != fpb {
					c.Fail("C14/purity-instance", "Validate", "Validate changed the instance")
				}
			}
			states = append(states, typedJSONDeep(insts[0])+"|"+typedJSONDeep(insts[1]))
			if si == 0 {
				c.Out("step %d %s -> %s", ti, st, JSON(insts[cur]))
			}
		}
		if si == 0 {
			baseStates = states
			continue
		}
		for i := range states {
			if states[i] != baseStates[i] {
				c.Fail("C15/order-independence", "ApplyDefaults", "after step %d (%s) the instances are %s under schedule %d (%s) but %s under the canonical schedule", i, steps[i], states[i], si, sch, baseStates[i])
				break
			}
		}
	}
	st := simrt.GetStats()
	c.Distinct("%x", st.OrderHash)
	c.Nontrivial = nontrivial
	if inserted > 0 {
		c.Probe("defaults-inserted")
	}
	if c.logOn {
		var texts []json.RawMessage
		for _, w := range worlds {
			texts = append(texts, json.RawMessage(w.Text))
		}
		c.Sample = map[string]any{"schemas": texts, "instances": inst0, "history": fmt.Sprint(steps), "defaults_inserted_over_all_schedules": inserted}
	}
}

// applyTo calls ApplyDefaults on *inst. typed 0: through a pointer to an any holding the
// canonical value. typed 1 / 2: when the instance is a non-empty object whose members are all
// objects (1) or all arrays (2), through a pointer to a map[string]map[string]any /
// map[string][]any holding a deep copy - the element type is then a Go type of its own, not an
// interface - or (3) through a pointer to a map[string]json.RawMessage, and the result is
// brought back to canonical form through its JSON text.
// With twice, a typed holder gets a second application right away (same holder value); again
// describes the change it made, if any.
func applyTo(res *jsonschema.Resolved, inst *any, typed int, twice bool) (err error, r OpResult, wasTyped bool, again string) {
	m, isObj := (*inst).(map[string]any)
	if typed != 0 && isObj && len(m) > 0 {
		text := []byte(JSON(m))
		var holder any
		switch typed {
		case 1:
			ok := true
			for _, v := range m {
				if _, is := v.(map[string]any); !is {
					ok = false
				}
			}
			if ok {
				h := map[string]map[string]any{}
				if json.Unmarshal(text, &h) == nil {
					holder = &h
				}
			}
		case 2:
			ok := true
			for _, v := range m {
				if _, is := v.([]any); !is {
					ok = false
				}
			}
			if ok {
				h := map[string][]any{}
				if json.Unmarshal(text, &h) == nil {
					holder = &h
				}
			}
		case 3:
			h := map[string]json.RawMessage{}
			if json.Unmarshal(text, &h) == nil {
				holder = &h
			}
		}
		if holder != nil {
			r = Op(func() { err = res.ApplyDefaults(holder) })
			if !r.Panicked && err == nil {
				var back any
				b, _ := json.Marshal(holder)
				if json.Unmarshal(b, &back) == nil {
					*inst = back
				}
				if twice {
					var err2 error
					r2 := Op(func() { err2 = res.ApplyDefaults(holder) })
					if r2.Panicked {
						r = r2
					} else if b2, _ := json.Marshal(holder); err2 == nil && string(b2) != string(b) {
						again = fmt.Sprintf("from %s to %s", b, b2)
					}
				}
			}
			// The holder is the client's own memory: having copied what it needs, it wipes it (raw
			// bytes up to their capacity, nested maps, slice elements). Nothing the library keeps
			// may live there.
			switch h := holder.(type) {
			case *map[string]json.RawMessage:
				for _, raw := range *h {
					raw = raw[:cap(raw)]
					for i := range raw {
						raw[i] = ' '
					}
				}
			case *map[string]map[string]any:
				for _, m := range *h {
					wipe(m)
				}
			case *map[string][]any:
				for _, a := range *h {
					wipe(a)
				}
			}
			return err, r, true, again
		}
	}
	holder := *inst
	r = Op(func() { err = res.ApplyDefaults(&holder) })
	*inst = holder
	return err, r, false, ""
}

// wipe destroys a JSON-shaped value in place.
func wipe(v any) {
	switch x := v.(type) {
	case map[string]any:
		for k, e := range x {
			wipe(e)
			delete(x, k)
		}
	case []any:
		x = x[:cap(x)]
		for i := range x {
			wipe(x[i])
			x[i] = "wiped by the client"
		}
	}
}

// evolveSchema applies one edit to the subschema number `which` (in a fixed walk through
// "properties") of both the model document and the Schema tree, and reports whether it did.
func evolveSchema(tree *jsonschema.Schema, doc map[string]any, which, edit int) bool {
	type pair struct {
		d map[string]any
		n *jsonschema.Schema
	}
	var all []pair
	var walk func(d map[string]any, n *jsonschema.Schema, depth int)
	walk = func(d map[string]any, n *jsonschema.Schema, depth int) {
		if n == nil {
			return
		}
		if depth > 0 {
			all = append(all, pair{d, n}) // the root's own default is not part of the worlds
		}
		props, _ := d["properties"].(map[string]any)
		for _, k := range sortedKeys(props) {
			sub, _ := props[k].(map[string]any)
			if sub != nil && n.Properties != nil {
				walk(sub, n.Properties[k], depth+1)
			}
		}
	}
	walk(doc, tree, 0)
	if len(all) == 0 {
		return false
	}
	p := all[which%len(all)]
	props, _ := p.d["properties"].(map[string]any)
	switch edit % 4 {
	case 0:
		if _, has := p.d["default"]; !has {
			return false
		}
		delete(p.d, "default")
		p.n.Default = nil
	case 1:
		v := clone(defValuePool[(which+edit/4)%len(defValuePool)])
		p.d["default"] = v
		p.n.Default = json.RawMessage(JSON(v))
	case 2:
		ks := sortedKeys(props)
		if len(ks) == 0 {
			return false
		}
		k := ks[edit/4%len(ks)]
		p.d["required"] = []any{k}
		p.n.Required = []string{k}
	case 3:
		if _, has := p.d["required"]; !has {
			return false
		}
		delete(p.d, "required")
		p.n.Required = nil
	}
	return true
}

// classify reduces a checker message to a stable class.
func classify(msg string) string {
	for _, k := range []string{"holds no declared default", "required property was filled", "not the declared default", "has been removed", "changed from", "declares no such property", "declares no default"} {
		if contains2(msg, k) {
			return k
		}
	}
	return "other"
}

func contains2(s, sub string) bool {
	return len(sub) <= len(s) && (func() bool {
		for i := 0; i+len(sub) <= len(s); i++ {
			if s[i:i+len(sub)] == sub {
				return true
			}
		}
		return false
	})()
}
