package sim

import (
	"encoding/json"
	"fmt"
	"os"
	"reflect"

	"github.com/google/jsonschema-go/jsonschema"
	"verif.local/simrt"
)

func init() {
	Drivers["C16"] = driveC16
	Levels["C16"] = "exploration"
	Rules["C16"] = "one run = one type (from a corpus of 44 declared types: nesting, embedding, shadowing, tags '-', '-,', omitempty, omitzero, recursive and mutually recursive types, unsupported kinds at depth, stdlib marshaler types; or a reflect.StructOf type drawn from the chooser) x one ForOptions (TypeSchemas overriding named, embedded and stdlib types; IgnoreInvalidTypes on/off) x a history of 3-8 steps: ForType again, ForType of other types, client assignments to any field of any Schema object of an earlier result (and insertions into its schema maps), Resolve of a result, reconfiguration (the client replaces a TypeSchemas entry in place or continues with a copy of the options holding another map); TypeSchemas keys may be pointer types, entries may be type-less or already nullable; executed under map-order schedules and, as separate process batches, under both JSONSCHEMAGODEBUG settings. Oracles: every call with the same arguments marshals byte-identically to the first, whatever happened in between; no *Schema is shared between two results or with a TypeSchemas entry; Resolve accepts every result; recursive types give an error within the step budget; unsupported kinds give an error, or are dropped with IgnoreInvalidTypes. Non-trivial = a history of >=3 calls on a type that occurs >=2 times in itself or in TypeSchemas, with a mutation between calls. Distinct = hash(type, options, history) x order-vector hash."
	Assumptions["C16"] = append([]string{
		"decided: determinism and isolation over call/mutation histories, configurations and schedules; NOT decided: that names, order and required agree with encoding/json for every tag string, and the nullability rules (pure functions of the type)",
		"client mutations are field assignments and insertions into schema-valued maps only: non-schema slices and maps of a TypeSchemas entry are documented to be shared with its clones",
	}, CommonAssumptions...)
}

// allSchemas returns every *Schema reachable from s through schema-holding fields.
func allSchemas(s *jsonschema.Schema) []*jsonschema.Schema {
	var out []*jsonschema.Schema
	seen := map[*jsonschema.Schema]bool{}
	var walk func(s *jsonschema.Schema)
	walk = func(s *jsonschema.Schema) {
		if s == nil || seen[s] {
			return
		}
		seen[s] = true
		out = append(out, s)
		v := reflect.ValueOf(s).Elem()
		for i := 0; i < v.NumField(); i++ {
			f := v.Field(i)
			switch x := f.Interface().(type) {
			case *jsonschema.Schema:
				walk(x)
			case []*jsonschema.Schema:
				for _, e := range x {
					walk(e)
				}
			case map[string]*jsonschema.Schema:
				for _, k := range sortedKeys(x) {
					walk(x[k])
				}
			}
		}
	}
	walk(s)
	return out
}

var structOfFieldTypes = []reflect.Type{
	reflect.TypeOf(0), reflect.TypeOf(""), reflect.TypeOf(&tInner{}), reflect.TypeOf([]tInner{}), reflect.TypeOf(tInner{}),
	reflect.TypeOf(map[string]tTags{}), reflect.TypeOf(tStd{}.T), reflect.TypeOf(TExp{}), reflect.TypeOf([]*TExp{}), reflect.TypeOf(new(any)).Elem(),
}

var structOfTags = []string{``, `json:"x"`, `json:"x,omitempty"`, `json:"-"`, `json:",omitzero"`, `json:"y" jsonschema:"described"`, `json:"-,"`}

func genStructOf(c *Ctx) (reflect.Type, string) {
	n := 1 + c.W(5)
	var fs []reflect.StructField
	desc := "struct{"
	for i := 0; i < n; i++ {
		ft := pick(c, structOfFieldTypes)
		tag := pick(c, structOfTags)
		fs = append(fs, reflect.StructField{Name: fmt.Sprintf("F%d", i), Type: ft, Tag: reflect.StructTag(tag)})
		desc += fmt.Sprintf("F%d %s `%s`;", i, ft, tag)
	}
	return reflect.StructOf(fs), desc + "}"
}

type c16step struct {
	Kind int // 0 same call again, 1 another type, 2 mutate an earlier result, 3 resolve a result
	A, B int
}

func driveC16(c *Ctx) {
	var t reflect.Type
	var ct CorpusType
	if c.W(5) == 0 {
		var d string
		t, d = genStructOf(c)
		ct = CorpusType{Name: d, T: t}
	} else {
		ct = TypeCorpus[c.W(len(TypeCorpus))]
		t = ct.T
	}
	ignore := c.W(2) == 0
	// TypeSchemas
	tsNames := sortedKeys(TSTypes)
	var tsPick []string
	for i := c.W(4); i > 0; i-- {
		tsPick = append(tsPick, pick(c, tsNames))
	}
	// Keys may also be pointer types (*T, **T) next to or instead of T: a legal map whose pointer
	// entries the documentation gives no meaning to; whatever they do, they do it on every call.
	ptrKeys := make([]int, len(tsPick))
	for i := range ptrKeys {
		ptrKeys[i] = []int{0, 0, 0, 0, 1, 2, 3}[c.W(7)] // 0 T only; 1 T and *T; 2 *T only; 3 T, *T and **T
	}
	variant := make([]int, len(tsPick)) // bumped when the client replaces the entry (step kind 4)
	fill := func(o *jsonschema.ForOptions, k int) {
		n := tsPick[k]
		rt := TSTypes[n]
		kk := k + 17*variant[k]
		if ptrKeys[k] != 2 {
			o.TypeSchemas[rt] = overrideSchema(n, kk)
		}
		if ptrKeys[k] >= 1 {
			o.TypeSchemas[reflect.PointerTo(rt)] = overrideSchema(n, kk+7)
		}
		if ptrKeys[k] == 3 {
			o.TypeSchemas[reflect.PointerTo(reflect.PointerTo(rt))] = overrideSchema(n, kk+13)
		}
	}
	mkOpts := func() *jsonschema.ForOptions {
		o := &jsonschema.ForOptions{IgnoreInvalidTypes: ignore}
		if len(tsPick) > 0 {
			o.TypeSchemas = map[reflect.Type]*jsonschema.Schema{}
			for k := range tsPick {
				fill(o, k)
			}
		}
		return o
	}
	opts := mkOpts()
	nsteps := 3 + c.W(6)
	var steps []c16step
	for i := 0; i < nsteps; i++ {
		steps = append(steps, c16step{Kind: []int{0, 0, 1, 2, 2, 3, 4}[c.W(7)], A: c.W(64), B: c.W(64)})
	}
	env := os.Getenv("JSONSCHEMAGODEBUG")
	c.In("type %s ignore=%v typeschemas=%v pointer-keys=%v steps=%v env=%q", ct.Name, ignore, tsPick, ptrKeys, steps, env)
	c.Distinct("%s|%v|%v|%v|%v|%s", ct.Name, ignore, tsPick, ptrKeys, steps, env)
	policy := simrt.Choose(simrt.SOrder, 0, simrt.NumOrderPolicies)
	simrt.SetOrderPolicy(policy)

	call := func(rt reflect.Type, o *jsonschema.ForOptions) (*jsonschema.Schema, string, OpResult) {
		var s *jsonschema.Schema
		var err error
		r := Op(func() { s, err = jsonschema.ForType(rt, o) })
		c.CheckOp(fmt.Sprintf("ForType(%s)", rt), r)
		switch {
		case r.Panicked:
			return nil, r.String(), r
		case err != nil:
			return nil, "error", r
		case s == nil:
			return nil, "nil-schema", r
		}
		b, merr := json.Marshal(s)
		if merr != nil {
			return s, "marshal-error:" + errSig(merr), r
		}
		return s, string(b), r
	}
	entryPtrs := map[*jsonschema.Schema]string{}
	entryFP := ""
	if opts.TypeSchemas != nil {
		for rt, e := range opts.TypeSchemas {
			for _, p := range allSchemas(e) {
				entryPtrs[p] = "TypeSchemas[" + rt.String() + "]"
			}
		}
		entryFP = fpTypeSchemas(opts.TypeSchemas)
	}
	first, d0, r0 := call(t, opts)
	c.Out("first call: %.300s", d0)
	if r0.Hang {
		c.Fail("C16/recursive-type", "hang", "ForType(%s) did not return within the step budget", ct.Name)
		return
	}
	if ct.Recursive && d0 != "error" {
		c.Fail("C16/recursive-type", "no-error", "ForType of the recursive type %s returned %.200s instead of an error", ct.Name, d0)
	}
	if ct.Invalid && !ignore && d0 != "error" {
		c.Fail("C16/unsupported-kind", "no-error", "ForType(%s) without IgnoreInvalidTypes returned %.200s instead of an error", ct.Name, d0)
	}
	if ct.Invalid && ignore && (d0 == "error" || r0.Panicked) {
		c.Fail("C16/unsupported-kind", "error-with-ignore", "ForType(%s) with IgnoreInvalidTypes returned %s", ct.Name, d0)
	}
	results := []*jsonschema.Schema{}
	owner := map[*jsonschema.Schema]int{}
	note := func(s *jsonschema.Schema, idx int) {
		if s == nil {
			return
		}
		for _, p := range allSchemas(s) {
			if where, ok := entryPtrs[p]; ok {
				c.Fail("C16/isolation", "shares-with-typeschemas", "result %d of ForType(%s) shares a *Schema with %s", idx, ct.Name, where)
				return
			}
			if prev, ok := owner[p]; ok && prev != idx {
				c.Fail("C16/isolation", "shares-with-earlier-result", "result %d shares a *Schema with result %d (type %s, TypeSchemas %v)", idx, prev, ct.Name, tsPick)
				return
			}
			owner[p] = idx
		}
		// a tree: no *Schema twice within one result (Resolve requires it)
		results = append(results, s)
	}
	note(first, 0)
	resolveOK := func(s *jsonschema.Schema, idx int) {
		if s == nil {
			return
		}
		var err error
		r := Op(func() { _, err = s.Resolve(nil) })
		c.CheckOp("Resolve(result)", r)
		if !r.Panicked && err != nil {
			c.Fail("C16/resolvable", errSig(err), "Resolve rejects result %d of ForType(%s) (TypeSchemas %v): %v", idx, ct.Name, tsPick, err)
		}
	}
	resolveOK(first, 0)
	mutated := false
	calls := 1
	for si, st := range steps {
		switch st.Kind {
		case 0:
			s, d, _ := call(t, opts)
			calls++
			if d != d0 {
				c.Fail("C16/determinism", "repeat-differs", "step %d: call %d of ForType(%s) (ignore=%v, TypeSchemas %v, order %s) gave %.300q, the first call gave %.300q", si, calls, ct.Name, ignore, tsPick, policyName(policy), d, d0)
				return
			}
			note(s, len(results))
			if mutated {
				c.Probe("repeat-after-mutation")
			}
		case 1:
			o := TypeCorpus[st.A%len(TypeCorpus)]
			oo := opts
			if st.B%3 == 0 {
				oo = nil
			}
			s, _, _ := call(o.T, oo)
			if oo == opts {
				note(s, len(results))
			} else if s != nil {
				results = append(results, s)
			}
		case 2:
			if len(results) == 0 {
				break
			}
			res := results[st.A%len(results)]
			all := allSchemas(res)
			tgt := all[st.B%len(all)]
			switch (st.A + st.B) % 8 {
			case 7:
				// write THROUGH the pointer-valued keywords that inference filled in (the result is
				// the caller's own tree). TypeSchemas overrides in this corpus carry none of them.
				for _, node := range all {
					if node.Minimum != nil {
						*node.Minimum = -41
					}
					if node.Maximum != nil {
						*node.Maximum = 41
					}
					if node.MinItems != nil {
						*node.MinItems = 7
					}
					if node.MaxItems != nil {
						*node.MaxItems = 7
					}
				}
			case 0:
				tgt.Type, tgt.Types = "mutated", nil
			case 1:
				tgt.Types, tgt.Type = []string{"null", "mutated"}, ""
			case 2:
				if tgt.Properties != nil {
					tgt.Properties["injected"] = &jsonschema.Schema{Title: "injected"}
				} else {
					tgt.Properties = map[string]*jsonschema.Schema{"injected": {}}
				}
			case 3:
				tgt.Items, tgt.AdditionalProperties = nil, &jsonschema.Schema{Title: "mutated"}
			case 4:
				tgt.Required, tgt.PropertyOrder = []string{"zz"}, []string{"zz", "yy"}
			case 5:
				tgt.Title, tgt.Description = "mutated", "mutated"
				tgt.Minimum = jsonschema.Ptr(42.0)
			case 6:
				for k := range tgt.Properties {
					delete(tgt.Properties, k)
				}
			}
			mutated = true
			c.Probe("client-mutation")
		case 3:
			if len(results) > 0 && !mutated {
				resolveOK(results[st.A%len(results)], st.A%len(results))
			}
		case 4:
			// The client reconfigures: it replaces one entry of the TypeSchemas map of the options
			// value it keeps using (same keys, another schema) - or continues with a copy of the
			// options value that holds a new map. From here on "the same arguments" are the new
			// contents; a freshly built equal options value says what they mean.
			if len(tsPick) == 0 {
				break
			}
			k := st.A % len(tsPick)
			variant[k] += 1 + st.B%3
			if st.B%2 == 0 {
				for kk := range tsPick { // in mkOpts' order: a name drawn twice means a later index wins
					fill(opts, kk)
				}
			} else {
				o2 := *opts
				o2.TypeSchemas = mkOpts().TypeSchemas
				opts = &o2
			}
			for rt, e := range opts.TypeSchemas {
				for _, p := range allSchemas(e) {
					entryPtrs[p] = "TypeSchemas[" + rt.String() + "]"
				}
			}
			entryFP = fpTypeSchemas(opts.TypeSchemas)
			var fresh *jsonschema.Schema
			fresh, d0, _ = call(t, mkOpts())
			if fresh != nil {
				results = append(results, fresh)
			}
			s, d, _ := call(t, opts)
			calls++
			if d != d0 {
				c.Fail("C16/determinism", "reconfigured-options", "step %d: after the client replaced TypeSchemas[%s] in its options value, ForType(%s) gave %.300q; freshly built options with the same contents give %.300q", si, tsPick[k], ct.Name, d, d0)
				return
			}
			note(s, len(results))
			c.Probe("options-reconfigured")
		}
	}
	// one last repeat: whatever happened, the same arguments give the same schema
	_, dl, _ := call(t, opts)
	calls++
	if dl != d0 {
		c.Fail("C16/determinism", "repeat-differs", "final call %d of ForType(%s) (ignore=%v, TypeSchemas %v) gave %.300q, the first call gave %.300q", calls, ct.Name, ignore, tsPick, dl, d0)
	}
	if opts.TypeSchemas != nil {
		if fp := fpTypeSchemas(opts.TypeSchemas); fp != entryFP {
			c.Probe("typeschemas-entry-modified") // recorded; the property speaks of results, asserted through determinism
		}
	}
	// fresh, equal options give the same result too
	if _, d2, _ := call(t, mkOpts()); d2 != d0 {
		c.Fail("C16/determinism", "equal-options-differ", "ForType(%s) with freshly built equal options gave %.300q, the first call gave %.300q", ct.Name, d2, d0)
	}
	occursTwice := ct.Name == "tOuter" || ct.Name == "tTwice" || ct.Name == "[]tOuter" || ct.Name == "map[string]*tOuter" || ct.Name == "tStd" || ct.Name == "tNamedFields" || len(tsPick) > 0
	c.Nontrivial = calls >= 3 && occursTwice && mutated
	c.Distinct("%x", simrt.GetStats().OrderHash)
	if ct.Recursive {
		c.Probe("recursive-type")
	}
	if ct.Invalid {
		c.Probe("unsupported-kind")
	}
	if len(tsPick) > 0 {
		c.Probe("with-typeschemas")
	}
	if c.logOn {
		c.Sample = map[string]any{"type": ct.Name, "ignore_invalid": ignore, "typeschemas": tsPick, "steps": fmt.Sprint(steps), "first_result": trunc(d0, 500), "env": env}
	}
}

// overrideSchema builds a TypeSchemas entry; the variants cover single and multiple types,
// slices with spare capacity (as append and json.Unmarshal produce), and nested schemas.
func overrideSchema(name string, k int) *jsonschema.Schema {
	title := fmt.Sprintf("override-%s-%d", name, k)
	switch (len(name) + k) % 7 {
	case 5:
		// no "type" at all: nothing for a pointer's null to be added to
		return &jsonschema.Schema{Title: title, Description: "typeless", MinLength: jsonschema.Ptr(1)}
	case 6:
		// already nullable
		return &jsonschema.Schema{Types: []string{"null", "string"}, Title: title}
	case 4:
		// every subschema-holding keyword is populated: whatever copies an entry must copy all of them
		var s jsonschema.Schema
		json.Unmarshal([]byte(`{"type":"object","title":"`+title+`","items":[{"type":"string"},{"type":"integer"}],"additionalItems":{"type":"null"},
			"prefixItems":[{"type":"boolean"}],"contains":{"type":"number"},"unevaluatedItems":{"type":"string"},
			"properties":{"o":{"type":"string"}},"patternProperties":{"^x":{"type":"integer"}},"additionalProperties":{"type":"string"},
			"propertyNames":{"maxLength":9},"unevaluatedProperties":{"type":"null"},"dependentSchemas":{"o":{"required":["o"]}},
			"dependencies":{"p":{"required":["o"]},"q":["o"]},"allOf":[{"title":"a"}],"anyOf":[{"title":"b"},{"title":"c"}],"oneOf":[{"title":"d"}],
			"not":{"title":"e"},"if":{"title":"f"},"then":{"title":"g"},"else":{"title":"h"},"contentSchema":{"title":"i"},
			"$defs":{"k":{"title":"j"}},"definitions":null}`), &s)
		return &s
	case 0:
		return &jsonschema.Schema{Type: "object", Title: title,
			Properties: map[string]*jsonschema.Schema{"o": {Type: "string"}, "p": {Types: []string{"integer", "string"}}}}
	case 1:
		var s jsonschema.Schema
		json.Unmarshal([]byte(`{"type":["string","number","integer"],"title":"`+title+`","items":{"type":["boolean","string","array"]}}`), &s)
		return &s
	case 2:
		ts := make([]string, 0, 8)
		ts = append(ts, "object", "string")
		return &jsonschema.Schema{Types: ts, Title: title, Required: append(make([]string, 0, 4), "o"),
			Properties: map[string]*jsonschema.Schema{"o": {Types: append(make([]string, 0, 4), "integer", "string")}}}
	default:
		return &jsonschema.Schema{Type: "string", Title: title, Enum: []any{"a", "b"}}
	}
}

func fpTypeSchemas(m map[reflect.Type]*jsonschema.Schema) string {
	var keys []string
	byKey := map[string]*jsonschema.Schema{}
	for t, s := range m {
		k := t.PkgPath() + "." + t.String()
		keys = append(keys, k)
		byKey[k] = s
	}
	out := ""
	for _, k := range sortedStrings(keys) {
		out += k + "=" + Fingerprint(byKey[k]) + ";"
	}
	return out
}

func sortedStrings(xs []string) []string {
	m := map[string]bool{}
	for _, x := range xs {
		m[x] = true
	}
	return sortedKeys(m)
}
