package sim

import (
	"bytes"
	"encoding/json"
	"fmt"
	"sort"
	"strings"

	"github.com/google/jsonschema-go/jsonschema"
	"verif.local/simrt"
)

func init() {
	Drivers["C19"] = driveC19
	Levels["C19"] = "exploration"
	Rules["C19"] = "one run = one generated Schema VALUE (Go struct, nested to depth 3; every level with its own Properties and PropertyOrder: absent, empty, permutation, subset, superset with names that are no property, duplicates at any level; Extra keys (sometimes repeating a keyword: Marshal must refuse), names that differ only in case / space / normal form or contain commas, draft-07 dependencies union, $defs, items, allOf, patternProperties; also trees inferred by For from a type corpus) marshaled >=4 times (after the second, the caller overwrites the bytes MarshalJSON returned for up to 8 nodes) under the canonical schedule and under 5 (quick) / 13 (thorough) further map-order schedules. Oracles: identical bytes across repetitions and schedules; on the token stream of the output the keys of every 'properties' object are exactly [listed names that exist, in list order] ++ [other names ascending]; a duplicate anywhere in the tree makes Marshal fail under every schedule. Non-trivial = some level has >=3 properties with >=1 listed and >=2 unlisted AND schema.go's remaining-keys loop saw a non-canonical order. Distinct = hash(canonical bytes or error, tree shape) x order-vector hash."
	Assumptions["C19"] = append([]string{
		"the expected key order is computed from the property text (listed-that-exist in list order, then the rest ascending by Go string comparison) by a 10-line model, not from the implementation",
		"bytes are compared per entry point (json.Marshal of the pointer); json.Marshal compacts MarshalJSON output, which is not part of the claim",
	}, CommonAssumptions...)
}

var c19Names = []string{"a", "b", "c", "d", "e", "ab", "Z", "A", "Ab", "aB", "É", "a ", "e\u0301", "a,a", "a,b", "b,c", "é", "a b", "0", "a\"", "a#", "x<y", "x=y", "a\\b", "\u2028"}

type c19gen struct {
	arena  []string // PropertyOrder / Required lists are sub-slices of one array: each has spare capacity that runs into the next list
	c      *Ctx
	hasDup bool
	rich   bool // some level has >=3 properties, >=1 listed, >=2 unlisted
}

func (g *c19gen) order(props map[string]*jsonschema.Schema) []string {
	c := g.c
	names := sortedKeys(props)
	switch c.W(8) {
	case 0:
		return nil
	case 1:
		return []string{}
	case 2: // full permutation
		return subsetShuffled(c, names, len(names))
	case 3, 4: // subset, shuffled
		if len(names) == 0 {
			return nil
		}
		return subsetShuffled(c, names, 1+c.W(len(names)))
	case 5: // superset with absent names
		o := subsetShuffled(c, names, len(names))
		extra := []string{"zz", "nope", "a0"}
		// names that are no property but are close to one: another letter case, surrounding space
		for _, n := range names {
			for _, v := range []string{strings.ToUpper(n), strings.ToLower(n), " " + n, n + " "} {
				if _, ok := props[v]; !ok && c.W(4) == 0 {
					extra = append(extra, v)
				}
			}
		}
		for _, e := range extra {
			if c.W(2) == 0 {
				pos := c.W(len(o) + 1)
				o = append(o[:pos], append([]string{e}, o[pos:]...)...)
			}
		}
		return o
	case 6: // only absent names
		return []string{"zz", "nope"}
	default: // duplicate
		if len(names) == 0 {
			g.hasDup = true
			return []string{"zz", "zz"}
		}
		o := subsetShuffled(c, names, 1+c.W(len(names)))
		d := o[c.W(len(o))]
		if c.W(3) == 0 {
			d = "nope"
			o = append(o, d)
		}
		pos := c.W(len(o) + 1)
		o = append(o[:pos], append([]string{d}, o[pos:]...)...)
		g.hasDup = true
		return o
	}
}

// own returns a copy of xs carved out of the shared arena (len(xs) elements, capacity up to the
// end of the arena).
func (g *c19gen) own(xs []string) []string {
	if xs == nil {
		return nil
	}
	if g.arena == nil {
		g.arena = make([]string, 0, 192)
	}
	if len(g.arena)+len(xs)+1 > cap(g.arena) {
		return xs
	}
	start := len(g.arena)
	g.arena = append(g.arena, xs...)
	g.arena = append(g.arena, "<guard>")
	return g.arena[start : start+len(xs)]
}

func (g *c19gen) schema(depth int) *jsonschema.Schema {
	c := g.c
	s := &jsonschema.Schema{}
	switch c.W(5) {
	case 0:
		s.Type = pick(c, typePool)
	case 1:
		s.Types = g.own([]string{"null", "string"})
	case 2:
		s.Title = pick(c, stringPool)
	}
	if depth <= 0 {
		return s
	}
	if c.W(5) != 0 {
		s.Properties = map[string]*jsonschema.Schema{}
		for _, n := range subset(c, c19Names, 0, 6) {
			s.Properties[n] = g.schema(depth - 1)
		}
		if c.W(14) == 0 {
			// a wide level: size thresholds (pooled buffers, pre-sized tables) start to matter
			for i, n := 0, 33+c.W(30); i < n; i++ {
				s.Properties[fmt.Sprintf("w%02d", i)] = &jsonschema.Schema{Type: "string"}
			}
		}
		noDupBudget := g.hasDup
		s.PropertyOrder = g.own(g.order(s.Properties))
		if c.W(4) == 0 {
			s.Required = g.own(subset(c, c19Names, 1, 2))
		}
		if noDupBudget && g.hasDup {
			// keep at most one duplicate list per tree most of the time; still legal to have more
		}
		listed := 0
		for _, n := range s.PropertyOrder {
			if _, ok := s.Properties[n]; ok {
				listed++
			}
		}
		if len(s.Properties) >= 3 && listed >= 1 && len(s.Properties)-listed >= 2 {
			g.rich = true
		}
	} else if c.W(4) == 0 {
		// PropertyOrder without Properties
		s.PropertyOrder = []string{"a", "b"}
		if c.W(4) == 0 {
			s.PropertyOrder = []string{"a", "a"}
			g.hasDup = true
		}
	}
	for i := c.W(3); i > 0; i-- {
		switch c.W(9) {
		case 0:
			s.Items = g.schema(depth - 1)
		case 1:
			s.AllOf = []*jsonschema.Schema{g.schema(depth - 1), g.schema(depth - 1)}
		case 2:
			s.Defs = map[string]*jsonschema.Schema{"x": g.schema(depth - 1), "y": g.schema(depth - 1)}
		case 3:
			s.DependencySchemas = map[string]*jsonschema.Schema{"p": g.schema(depth - 1), "q": g.schema(depth - 1)}
			s.DependencyStrings = map[string][]string{"r": {"a"}, "s": {"b", "c"}}
		case 4:
			s.PatternProperties = map[string]*jsonschema.Schema{"^a": g.schema(depth - 1), "b$": g.schema(depth - 1)}
		case 5:
			s.Extra = map[string]any{"x-b": 1.0, "x-a": map[string]any{"k2": true, "k1": nil}, "zz": "s"}
			if c.W(6) == 0 {
				// an unknown-keyword map that repeats a known keyword (set in the struct or not)
				s.Extra[pick(c, []string{"title", "properties", "$id", "required", "items"})] = "from Extra"
			}
		case 6:
			s.DependentSchemas = map[string]*jsonschema.Schema{"u": g.schema(depth - 1), "t": g.schema(depth - 1)}
		case 7:
			s.AdditionalProperties = g.schema(depth - 1)
		case 8:
			s.Not = g.schema(depth - 1)
		}
	}
	return s
}

// ordered JSON --------------------------------------------------------------

type onode struct {
	keys []string
	vals map[string]*onode
	arr  []*onode
	kind byte // 'o' object, 'a' array, 's' scalar
}

func parseOrdered(b []byte) (*onode, error) {
	dec := json.NewDecoder(bytes.NewReader(b))
	dec.UseNumber()
	n, err := parseNode(dec)
	if err != nil {
		return nil, err
	}
	if _, err := dec.Token(); err == nil {
		return nil, fmt.Errorf("trailing data")
	}
	return n, nil
}

func parseNode(dec *json.Decoder) (*onode, error) {
	tok, err := dec.Token()
	if err != nil {
		return nil, err
	}
	switch t := tok.(type) {
	case json.Delim:
		switch t {
		case '{':
			n := &onode{kind: 'o', vals: map[string]*onode{}}
			for dec.More() {
				kt, err := dec.Token()
				if err != nil {
					return nil, err
				}
				k := kt.(string)
				v, err := parseNode(dec)
				if err != nil {
					return nil, err
				}
				if _, dup := n.vals[k]; dup {
					return nil, fmt.Errorf("duplicate key %q in output", k)
				}
				n.keys = append(n.keys, k)
				n.vals[k] = v
			}
			_, err := dec.Token()
			return n, err
		case '[':
			n := &onode{kind: 'a'}
			for dec.More() {
				v, err := parseNode(dec)
				if err != nil {
					return nil, err
				}
				n.arr = append(n.arr, v)
			}
			_, err := dec.Token()
			return n, err
		}
	}
	return &onode{kind: 's'}, nil
}

// expectedOrder is the model of the PropertyOrder contract.
func expectedOrder(props map[string]*jsonschema.Schema, order []string) []string {
	var out []string
	listed := map[string]bool{}
	for _, n := range order {
		if _, ok := props[n]; ok && !listed[n] {
			out = append(out, n)
			listed[n] = true
		}
	}
	var rest []string
	for n := range props {
		if !listed[n] {
			rest = append(rest, n)
		}
	}
	sort.Strings(rest)
	return append(out, rest...)
}

// checkOrder walks the schema value and the output side by side.
func checkOrder(s *jsonschema.Schema, n *onode, path string) string {
	if s == nil || n == nil {
		return ""
	}
	if n.kind != 'o' {
		return "" // true / false forms
	}
	if s.Properties != nil {
		pn := n.vals["properties"]
		if pn == nil || pn.kind != 'o' {
			return fmt.Sprintf("%s: no \"properties\" object in the output", path)
		}
		want := expectedOrder(s.Properties, s.PropertyOrder)
		if strings.Join(pn.keys, "\x00") != strings.Join(want, "\x00") {
			return fmt.Sprintf("%s/properties: keys emitted as %q, PropertyOrder %q over properties %q demands %q", path, pn.keys, s.PropertyOrder, sortedKeys(s.Properties), want)
		}
		for k, sub := range s.Properties {
			if m := checkOrder(sub, pn.vals[k], path+"/properties/"+k); m != "" {
				return m
			}
		}
	}
	one := func(key string, sub *jsonschema.Schema) string {
		if sub == nil {
			return ""
		}
		return checkOrder(sub, n.vals[key], path+"/"+key)
	}
	for _, m := range []string{one("items", s.Items), one("additionalProperties", s.AdditionalProperties), one("not", s.Not)} {
		if m != "" {
			return m
		}
	}
	if an := n.vals["allOf"]; an != nil {
		for i, sub := range s.AllOf {
			if i < len(an.arr) {
				if m := checkOrder(sub, an.arr[i], fmt.Sprintf("%s/allOf/%d", path, i)); m != "" {
					return m
				}
			}
		}
	}
	maps := []struct {
		key string
		m   map[string]*jsonschema.Schema
	}{{"$defs", s.Defs}, {"dependencies", s.DependencySchemas}, {"patternProperties", s.PatternProperties}, {"dependentSchemas", s.DependentSchemas}}
	for _, mm := range maps {
		mn := n.vals[mm.key]
		if mn == nil {
			continue
		}
		for k, sub := range mm.m {
			if m := checkOrder(sub, mn.vals[k], path+"/"+mm.key+"/"+k); m != "" {
				return m
			}
		}
	}
	return ""
}

// kids returns the subschemas the generator can create below s.
func kids(s *jsonschema.Schema) []*jsonschema.Schema {
	var out []*jsonschema.Schema
	for _, m := range []map[string]*jsonschema.Schema{s.Properties, s.Defs, s.DependencySchemas, s.PatternProperties, s.DependentSchemas} {
		for _, k := range sortedKeys(m) {
			out = append(out, m[k])
		}
	}
	out = append(out, s.AllOf...)
	for _, x := range []*jsonschema.Schema{s.Items, s.AdditionalProperties, s.Not} {
		if x != nil {
			out = append(out, x)
		}
	}
	return out
}

// treeFacts reports whether any PropertyOrder in the tree has a duplicate and
// whether some level is "rich" (>=3 properties, >=1 listed, >=2 unlisted).
// extraKeywordNames: JSON names of Schema fields that the generator also uses as Extra keys.
var extraKeywordNames = map[string]bool{"title": true, "properties": true, "$id": true, "required": true, "items": true}

func treeFacts(s *jsonschema.Schema) (dup, rich bool) {
	seen := map[string]bool{}
	listed := 0
	for _, n := range s.PropertyOrder {
		if seen[n] {
			dup = true
		}
		seen[n] = true
		if _, ok := s.Properties[n]; ok {
			listed++
		}
	}
	if len(s.Properties) >= 3 && listed >= 1 && len(s.Properties)-listed >= 2 {
		rich = true
	}
	for k := range s.Extra {
		if extraKeywordNames[k] {
			dup = true // an Extra key that repeats a keyword of the struct: Marshal must refuse, whether or not the field is set
		}
	}
	for _, k := range kids(s) {
		d, r := treeFacts(k)
		dup = dup || d
		rich = rich || r
	}
	return
}

func shapeOf(s *jsonschema.Schema) string {
	var b strings.Builder
	var walk func(s *jsonschema.Schema)
	walk = func(s *jsonschema.Schema) {
		if s == nil {
			return
		}
		fmt.Fprintf(&b, "{%v|%v", sortedKeys(s.Properties), s.PropertyOrder)
		for _, k := range sortedKeys(s.Properties) {
			walk(s.Properties[k])
		}
		for _, k := range kids(s)[len(s.Properties):] {
			walk(k)
		}
		b.WriteString("}")
	}
	walk(s)
	return b.String()
}

func driveC19(c *Ctx) {
	g := &c19gen{c: c}
	var s *jsonschema.Schema
	fromFor := false
	if len(TypeCorpus) > 0 && c.W(6) == 0 {
		ti := c.W(len(TypeCorpus))
		var err error
		r := Op(func() {
			s, err = jsonschema.ForType(TypeCorpus[ti].T, &jsonschema.ForOptions{IgnoreInvalidTypes: true})
		})
		c.CheckOp("ForType", r)
		if r.Panicked || err != nil || s == nil {
			s = g.schema(3)
		} else {
			fromFor = true
			c.In("ForType(%s)", TypeCorpus[ti].Name)
		}
	} else {
		s = g.schema(3)
	}
	g.hasDup, g.rich = treeFacts(s)
	shape := shapeOf(s)
	c.In("schema value shape %s dup=%v", shape, g.hasDup)
	fp0 := Fingerprint(s)
	nsched := 6
	if c.Tier == "thorough" {
		nsched = 14
	}
	scheds := genSchedules(c, nsched)
	var base string
	for si, sch := range scheds {
		sch.apply(c)
		for rep := 0; rep < 4; rep++ {
			var b []byte
			var err error
			r := Op(func() { b, err = json.Marshal(s) })
			c.CheckOp("Marshal", r)
			var d string
			switch {
			case r.Panicked:
				d = r.String()
			case err != nil:
				d = "error"
			default:
				d = string(b)
			}
			if si == 0 && rep == 1 && err == nil && !r.Panicked {
				// the same value through the other entry point: a Schema value instead of a pointer
				var b2 []byte
				var err2 error
				r2 := Op(func() { b2, err2 = json.Marshal(*s) })
				c.CheckOp("Marshal(value)", r2)
				if !r2.Panicked && (err2 != nil || string(b2) != d) {
					c.Fail("C19/determinism", "value-vs-pointer", "json.Marshal(*s) gave %.200q (err %v), json.Marshal(s) gave %.200q", b2, err2, d)
				}
			}
			if si == 0 && rep == 1 && err == nil && !r.Panicked {
				// The bytes MarshalJSON returns belong to the caller: it may reuse the slice (decoding
				// into a json.RawMessage field does). Scribbling over them - up to their capacity -
				// must not change what any later Marshal returns.
				nodes := allSchemas(s)
				for k := 0; k < len(nodes) && k < 8; k++ {
					n := nodes[(k*7)%len(nodes)]
					var own []byte
					r3 := Op(func() { own, _ = n.MarshalJSON() })
					c.CheckOp("MarshalJSON", r3)
					own = own[:cap(own)]
					for i := range own {
						own[i] = 'X'
					}
				}
				c.Probe("caller-overwrote-returned-bytes")
			}
			if si == 0 && rep == 0 {
				base = d
				c.Out("marshal = %.300s", d)
				if g.hasDup {
					if err == nil && !r.Panicked {
						c.Fail("C19/duplicate-rejected", "Marshal", "a PropertyOrder list in the tree has a duplicate entry (or an Extra key repeats a keyword) but Marshal succeeded: %.300s (shape %s)", d, shape)
					}
				} else if err != nil {
					c.Fail("C19/marshal-error", errSig(err), "Marshal of a well-formed schema value failed: %v (shape %s)", err, shape)
				} else if !r.Panicked {
					n, perr := parseOrdered(b)
					if perr != nil {
						c.Fail("C19/property-order", "invalid-json", "Marshal output is not valid JSON (%v): %.300s", perr, d)
					} else if m := checkOrder(s, n, ""); m != "" {
						c.Fail("C19/property-order", "order", "%s", m)
					}
				}
				continue
			}
			if rep == 0 && si <= 2 && err == nil && !r.Panicked {
				if n, perr := parseOrdered(b); perr == nil {
					if m := checkOrder(s, n, ""); m != "" {
						c.Fail("C19/property-order", "order", "under schedule %d (%s): %s", si, sch, m)
					}
				}
			}
			if d != base {
				c.Fail("C19/determinism", "Marshal", "schedule %d (%s) repetition %d gave %.200q, the first call under the canonical schedule gave %.200q", si, sch, rep, d, base)
				break
			}
		}
	}
	if Fingerprint(s) != fp0 {
		c.Fail("C14/purity-schema", "Marshal", "Marshal modified the schema value")
	}
	st := simrt.GetStats()
	c.Nontrivial = (g.rich || fromFor) && st.OrderNoncanon >= 1
	c.Distinct("%s|%s|%x", Digest(base), shape, st.OrderHash)
	if g.hasDup {
		c.Probe("duplicate-in-PropertyOrder")
	}
	if fromFor {
		c.Probe("inferred-schema")
	}
	if base == "error" {
		c.Probe("marshal-error-expected")
	}
	if c.logOn {
		c.Sample = map[string]any{"shape": shape, "has_duplicate": g.hasDup, "from_For": fromFor, "canonical_output": trunc(base, 600), "schedules": fmt.Sprint(scheds)}
	}
}

func trunc(s string, n int) string {
	if len(s) > n {
		return s[:n] + "…"
	}
	return s
}
