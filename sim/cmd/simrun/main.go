// Command simrun is the simulation worker: it executes a slice of the runs of
// one driver, or replays / minimises one trace file.
package main

import (
	"encoding/json"
	"flag"
	"fmt"
	"os"
	"strconv"
	"strings"
	"time"

	"verif.local/sim"
)

func main() {
	driver := flag.String("driver", "", "driver (property id)")
	tier := flag.String("tier", "quick", "tier")
	seed := flag.Uint64("seed", 1, "VERIF_SEED")
	from := flag.Int("from", 0, "first run index")
	to := flag.Int("to", 0, "one past the last run index")
	stride := flag.Int("stride", 1, "index stride")
	indices := flag.String("indices", "", "explicit comma-separated run indices")
	out := flag.String("out", "", "result file (JSON)")
	build := flag.String("build", "plain", "build label: plain or race")
	replay := flag.String("replay", "", "replay this trace file")
	minimise := flag.String("minimise", "", "minimise this trace file in place")
	budget := flag.Duration("budget", 60*time.Second, "minimisation time budget")
	maxwall := flag.Duration("maxwall", 0, "stop starting new runs after this long")
	verbose := flag.Bool("v", false, "print the event log on replay")
	flag.Parse()

	race := sim.NewRaceWatcher()
	switch {
	case *replay != "":
		tf, err := sim.LoadTrace(*replay)
		if err != nil {
			fmt.Fprintln(os.Stderr, "simrun:", err)
			os.Exit(2)
		}
		ok, c := sim.ReplayFile(tf, race, true)
		if *verbose {
			for _, l := range c.Log {
				fmt.Println(l)
			}
			if c.Sample != nil {
				b, _ := json.MarshalIndent(c.Sample, "", " ")
				fmt.Println("CASE:", string(b))
			}
		}
		if ok {
			for _, f := range c.Failures {
				if tf.Matches(f) {
					fmt.Printf("REPRODUCED property=%s oracle=%s site=%q\n  %s\n", f.Property, f.Oracle, f.Site, f.Detail)
					break
				}
			}
			os.Exit(1)
		}
		fmt.Printf("NOT-REPRODUCED property=%s oracle=%s (failures seen: %d)\n", tf.Property, tf.Oracle, len(c.Failures))
		os.Exit(0)
	case *minimise != "":
		tf, err := sim.LoadTrace(*minimise)
		if err != nil {
			fmt.Fprintln(os.Stderr, "simrun:", err)
			os.Exit(2)
		}
		res := sim.Minimise(tf, *budget)
		b, _ := json.MarshalIndent(res, "", " ")
		if err := os.WriteFile(*minimise, b, 0o644); err != nil {
			fmt.Fprintln(os.Stderr, "simrun:", err)
			os.Exit(2)
		}
		os.Exit(0)
	}
	if *driver == "" || *out == "" {
		fmt.Fprintln(os.Stderr, "simrun: -driver and -out required")
		os.Exit(2)
	}
	var idx []int
	if *indices != "" {
		for _, s := range strings.Split(*indices, ",") {
			n, err := strconv.Atoi(s)
			if err != nil {
				fmt.Fprintln(os.Stderr, "simrun: bad index", s)
				os.Exit(2)
			}
			idx = append(idx, n)
		}
	} else {
		for i := *from; i < *to; i += *stride {
			idx = append(idx, i)
		}
	}
	var deadline time.Time
	if *maxwall > 0 {
		deadline = time.Now().Add(*maxwall)
	}
	res := sim.RunBatch(*driver, *tier, *seed, idx, *build, race, deadline)
	b, err := json.Marshal(res)
	if err != nil {
		fmt.Fprintln(os.Stderr, "simrun:", err)
		os.Exit(2)
	}
	if err := os.WriteFile(*out, b, 0o644); err != nil {
		fmt.Fprintln(os.Stderr, "simrun:", err)
		os.Exit(2)
	}
}
