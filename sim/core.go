// Package sim holds the simulated worlds, reference models, oracles and
// per-property drivers (DESIGN.md §3.4–§4). A driver is a function of a *Ctx
// that draws every decision from simrt's streams, so one seed (or one recorded
// trace) is one exactly repeatable run.
package sim

import (
	"crypto/sha256"
	"encoding/hex"
	"encoding/json"
	"fmt"
	"hash"
	"reflect"
	"runtime"
	"sort"
	"strings"

	"verif.local/simrt"
)

// Failure is one oracle violation found in a run.
type Failure struct {
	Property string `json:"property"`
	Oracle   string `json:"oracle"` // e.g. "C14/schedule-independence"
	Site     string `json:"site"`   // stable classifier (library function, fault kind, ...)
	Detail   string `json:"detail"`
}

// Key identifies a failure class for known-findings matching and minimisation.
func (f Failure) Key() string { return f.Property + "|" + f.Oracle + "|" + f.Site }

// DefaultBudget is the number of yields one operation may execute.
const DefaultBudget = 400_000

// Ctx is the context of one simulated run.
type Ctx struct {
	Prop   string
	Tier   string
	Index  int
	Seed   uint64
	Replay bool

	in, out    hash.Hash
	Faults     map[string]int
	Probes     map[string]int
	Failures   []Failure
	Nontrivial bool
	distinct   hash.Hash
	Log        []string // readable event log (bounded)
	logOn      bool
	Sample     any
	opSite     uint32
}

func newCtx(prop, tier string, index int, seed uint64) *Ctx {
	return &Ctx{Prop: prop, Tier: tier, Index: index, Seed: seed,
		in: sha256.New(), out: sha256.New(), distinct: sha256.New(),
		Faults: map[string]int{}, Probes: map[string]int{}}
}

// W draws from the world stream.
func (c *Ctx) W(n int) int { return simrt.Choose(simrt.SWorld, 0, n) }

// WChance: true with probability num/den (0 from an exhausted replay = false).
func (c *Ctx) WChance(num, den int) bool { return simrt.Chance(simrt.SWorld, 0, num, den) }

// F draws from the fault stream.
func (c *Ctx) F(n int) int { return simrt.Choose(simrt.SFault, 0, n) }

// FChance is Chance on the fault stream.
func (c *Ctx) FChance(num, den int) bool { return simrt.Chance(simrt.SFault, 0, num, den) }

// In records something that is an input of the run (world, operation, fault decision).
func (c *Ctx) In(format string, args ...any) {
	s := fmt.Sprintf(format, args...)
	c.in.Write([]byte(s))
	c.in.Write([]byte{0})
	c.logf("%s", s)
}

// Out records an observed result of library code.
func (c *Ctx) Out(format string, args ...any) {
	s := fmt.Sprintf(format, args...)
	c.out.Write([]byte(s))
	c.out.Write([]byte{0})
	c.logf("  -> %s", s)
}

// Distinct adds to the key that decides whether two runs are "the same case".
func (c *Ctx) Distinct(format string, args ...any) {
	fmt.Fprintf(c.distinct, format, args...)
	c.distinct.Write([]byte{0})
}

func (c *Ctx) logf(format string, args ...any) {
	if !c.logOn || len(c.Log) >= 400 {
		return
	}
	s := fmt.Sprintf(format, args...)
	if len(s) > 600 {
		s = s[:600] + "…"
	}
	c.Log = append(c.Log, s)
}

// Fail records an oracle violation.
func (c *Ctx) Fail(oracle, site, format string, args ...any) {
	d := fmt.Sprintf(format, args...)
	if len(d) > 1500 {
		d = d[:1500] + "…"
	}
	prop := c.Prop
	if i := strings.IndexByte(oracle, '/'); i > 0 {
		prop = oracle[:i]
	}
	c.Failures = append(c.Failures, Failure{Property: prop, Oracle: oracle, Site: site, Detail: d})
	c.logf("FAIL %s [%s]: %s", oracle, site, d)
}

// Fault counts an injected fault that actually fired.
func (c *Ctx) Fault(kind string) { c.Faults[kind]++ }

// Probe counts a "this condition was reached" event.
func (c *Ctx) Probe(name string) { c.Probes[name]++ }

// OpResult describes how an operation ended.
type OpResult struct {
	Panicked bool
	Hang     bool   // step budget exhausted or deadlock
	Value    string // panic text
	Where    string // innermost library function on the panicking stack
}

func (r OpResult) String() string {
	switch {
	case r.Hang:
		return "HANG"
	case r.Panicked:
		return "PANIC@" + r.Where
	}
	return "ok"
}

const libPrefix = "github.com/google/jsonschema-go/jsonschema."

// Op runs f as one operation: step budget, recover, classification.
func Op(f func()) (res OpResult) { return OpBudget(DefaultBudget, f) }

// OpBudget is Op with an explicit step budget.
func OpBudget(budget int64, f func()) (res OpResult) {
	simrt.SetStepBudget(budget)
	simrt.BeginOp(0)
	defer func() {
		if r := recover(); r != nil {
			res.Panicked = true
			switch v := r.(type) {
			case simrt.BudgetExceeded:
				res.Hang = true
				res.Value = fmt.Sprintf("step budget exceeded (%d steps)", v.Steps)
			case simrt.Deadlock:
				res.Hang = true
				res.Value = "deadlock at " + simrt.SiteName(v.Site)
			default:
				res.Value = fmt.Sprint(r)
				if len(res.Value) > 300 {
					res.Value = res.Value[:300]
				}
			}
			res.Where = panicSite()
		}
	}()
	f()
	return
}

// panicSite returns the innermost jsonschema function on the current
// (panicking) stack, skipping deferred closures that merely run during the
// unwind.
func panicSite() string {
	pcs := make([]uintptr, 64)
	n := runtime.Callers(0, pcs)
	frames := runtime.CallersFrames(pcs[:n])
	sawPanic := false
	for {
		fr, more := frames.Next()
		if strings.HasPrefix(fr.Function, "runtime.gopanic") || fr.Function == "runtime.panicmem" || fr.Function == "runtime.sigpanic" {
			sawPanic = true
		} else if sawPanic && strings.HasPrefix(fr.Function, libPrefix) {
			fn := strings.TrimPrefix(fr.Function, libPrefix)
			// strip closure suffixes: resolveURIs.func2 -> resolveURIs
			if i := strings.Index(fn, ".func"); i > 0 {
				fn = fn[:i]
			}
			fn = strings.TrimSuffix(fn, "[...]")
			return fn
		}
		if !more {
			break
		}
	}
	return "?"
}

// CheckOp records a panic or hang as a C10 failure.
func (c *Ctx) CheckOp(what string, r OpResult) {
	if r.Hang {
		// where the budget happened to run out is arbitrary: classify by operation
		op := what
		if i := strings.IndexAny(op, " ("); i > 0 {
			op = op[:i]
		}
		c.Fail("C10/hang", op, "%s did not return: %s (budget ran out in %s)", what, r.Value, r.Where)
	} else if r.Panicked {
		c.Fail("C10/panic", r.Where, "%s panicked: %s", what, r.Value)
	}
}

// ---------------------------------------------------------------------------
// Digests and fingerprints

func hexsum(h hash.Hash) string { return hex.EncodeToString(h.Sum(nil))[:16] }

// Digest of arbitrary text.
func Digest(parts ...string) string {
	h := sha256.New()
	for _, p := range parts {
		h.Write([]byte(p))
		h.Write([]byte{0})
	}
	return hexsum(h)
}

// Fingerprint is a structural fingerprint of a Go value: values, lengths,
// nil-ness, dynamic types and the pointer graph (which pointers alias which).
// Two calls give the same string iff nothing observable through exported
// fields, map entries, slice elements or pointers has changed.
func Fingerprint(x any) string {
	h := sha256.New()
	fp(h, reflect.ValueOf(x), map[uintptr]int{})
	return hexsum(h)
}

func fp(h hash.Hash, v reflect.Value, ptrs map[uintptr]int) {
	if !v.IsValid() {
		h.Write([]byte("<nil>"))
		return
	}
	switch v.Kind() {
	case reflect.Pointer:
		if v.IsNil() {
			h.Write([]byte("p0"))
			return
		}
		p := v.Pointer()
		if id, ok := ptrs[p]; ok {
			fmt.Fprintf(h, "p@%d", id)
			return
		}
		ptrs[p] = len(ptrs) + 1
		fmt.Fprintf(h, "p#%d:%s{", len(ptrs), v.Type().Elem().String())
		fp(h, v.Elem(), ptrs)
		h.Write([]byte("}"))
	case reflect.Interface:
		if v.IsNil() {
			h.Write([]byte("i0"))
			return
		}
		fmt.Fprintf(h, "i:%s{", v.Elem().Type().String())
		fp(h, v.Elem(), ptrs)
		h.Write([]byte("}"))
	case reflect.Struct:
		t := v.Type()
		fmt.Fprintf(h, "s:%s{", t.String())
		for i := 0; i < t.NumField(); i++ {
			if !t.Field(i).IsExported() {
				// unexported state of foreign types (big.Int, time.Time...) via %v
				continue
			}
			fmt.Fprintf(h, "%s=", t.Field(i).Name)
			fp(h, v.Field(i), ptrs)
			h.Write([]byte(";"))
		}
		h.Write([]byte("}"))
	case reflect.Map:
		if v.IsNil() {
			h.Write([]byte("m0"))
			return
		}
		keys := v.MapKeys()
		sort.Slice(keys, func(i, j int) bool { return fmt.Sprint(keys[i]) < fmt.Sprint(keys[j]) })
		fmt.Fprintf(h, "m%d{", len(keys))
		for _, k := range keys {
			fmt.Fprintf(h, "%q=", fmt.Sprint(k))
			fp(h, v.MapIndex(k), ptrs)
			h.Write([]byte(";"))
		}
		h.Write([]byte("}"))
	case reflect.Slice:
		if v.IsNil() {
			h.Write([]byte("l0"))
			return
		}
		// The spare capacity beyond len is memory the caller owns too: an append-in-place by
		// the library shows there (and in any other slice that shares the backing array).
		full := v
		if v.Cap() > v.Len() && v.CanInterface() {
			full = v.Slice3(0, v.Cap(), v.Cap())
		}
		if v.Type().Elem().Kind() == reflect.Uint8 {
			fmt.Fprintf(h, "b%d:%x|%x", v.Len(), v.Bytes(), full.Bytes()[v.Len():])
			return
		}
		fmt.Fprintf(h, "l%d[", v.Len())
		for i := 0; i < full.Len(); i++ {
			if i == v.Len() {
				h.Write([]byte("|spare:"))
			}
			fp(h, full.Index(i), ptrs)
			h.Write([]byte(","))
		}
		h.Write([]byte("]"))
	case reflect.Array:
		fmt.Fprintf(h, "a%d[", v.Len())
		for i := 0; i < v.Len(); i++ {
			fp(h, v.Index(i), ptrs)
			h.Write([]byte(","))
		}
		h.Write([]byte("]"))
	case reflect.String:
		fmt.Fprintf(h, "%q", v.String())
	case reflect.Float32, reflect.Float64:
		fmt.Fprintf(h, "f%x", v.Float())
	case reflect.Func, reflect.Chan, reflect.UnsafePointer:
		fmt.Fprintf(h, "<%s>", v.Kind())
	default:
		fmt.Fprintf(h, "%v", v.Interface())
	}
}

// JSON renders a value compactly for logs and samples.
func JSON(x any) string {
	b, err := json.Marshal(x)
	if err != nil {
		return fmt.Sprintf("<%v>", err)
	}
	return string(b)
}

// ---------------------------------------------------------------------------
// Drivers

// Driver is the body of one simulated run of a property.
type Driver func(c *Ctx)

// Drivers is filled by the per-property files.
var Drivers = map[string]Driver{}

// Levels gives the evidence level of each property's check.
var Levels = map[string]string{}

// Rules states, per property, how cases are generated and what counts as
// non-trivial and distinct.
var Rules = map[string]string{}

// Assumptions lists, per property, what the check trusts.
var Assumptions = map[string][]string{}

// CommonAssumptions hold for every check.
var CommonAssumptions = []string{
	"the instrumenter's rewrites are semantics-preserving (each behaviour of the rewritten program is one the Go specification allows the original); checked by running the repository's own test suite on the instrumented copy under several schedules (./check selftest)",
	"encoding/json's own map encoding, maps.Clone and maps.Copy are order-insensitive and are not instrumented",
	"net/url implements RFC 3986 reference resolution (used by the universe generator to validate every generated reference form)",
	"a clean batch is evidence, not proof: schedules, faults and worlds are sampled by seeded search",
}
