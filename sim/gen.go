package sim

import (
	"encoding/json"
	"fmt"
	"sort"
)

// Pools are small on purpose: collisions between property names, patterns,
// instance keys and enum values must be common.
var (
	propPool    = []string{"a", "b", "c", "ab", "bc", "x", "y1"}
	patternPool = []string{"^a", "b$", "^[ab]", "c", "^x|^y", ".", "^.$"}
	stringPool  = []string{"", "a", "ab", "abc", "xyz", "é", "aaaa", "b"}
	numberPool  = []float64{0, 1, -1, 2, 3, 1.5, 2.5, 10, 100, -3}
	typePool    = []string{"null", "boolean", "integer", "number", "string", "array", "object"}
)

func pick[T any](c *Ctx, xs []T) T { return xs[c.W(len(xs))] }

// subset returns a non-empty subset of xs of size between lo and hi, in pool order.
func subset[T any](c *Ctx, xs []T, lo, hi int) []T {
	if hi > len(xs) {
		hi = len(xs)
	}
	k := lo + c.W(hi-lo+1)
	idx := make([]int, len(xs))
	for i := range idx {
		idx[i] = i
	}
	for i := 0; i < k; i++ {
		j := i + c.W(len(xs)-i)
		idx[i], idx[j] = idx[j], idx[i]
	}
	sel := append([]int(nil), idx[:k]...)
	sort.Ints(sel)
	out := make([]T, k)
	for i, j := range sel {
		out[i] = xs[j]
	}
	return out
}

// GenValue generates a random JSON value in its canonical encoding/json form.
func GenValue(c *Ctx, depth int) any {
	n := 7
	if depth <= 0 {
		n = 5
	}
	switch c.W(n) {
	case 0:
		return pick(c, numberPool)
	case 1:
		return pick(c, stringPool)
	case 2:
		return c.W(2) == 1
	case 3:
		return nil
	case 4:
		return pick(c, numberPool)
	case 5:
		k := c.W(4)
		arr := make([]any, k)
		for i := range arr {
			arr[i] = GenValue(c, depth-1)
		}
		return arr
	default:
		m := map[string]any{}
		for _, k := range subset(c, propPool, 0, 4) {
			m[k] = GenValue(c, depth-1)
		}
		return m
	}
}

// schemaGen generates keyword-rich schema documents.
type schemaGen struct {
	c       *Ctx
	draft7  bool
	defs    []string // names of $defs entries (generated after the root)
	anchors []string
	inDef   bool
}

func (g *schemaGen) defsKey() string {
	if g.draft7 {
		return "definitions"
	}
	return "$defs"
}

// GenSchemaDoc returns a schema document (as a JSON-able map) over the whole
// vocabulary, with >= 2 entries in map-valued keywords most of the time.
func GenSchemaDoc(c *Ctx, draft7 bool) map[string]any {
	g := &schemaGen{c: c, draft7: draft7}
	nd := c.W(4)
	for i := 0; i < nd; i++ {
		g.defs = append(g.defs, fmt.Sprintf("d%d", i))
	}
	var root map[string]any
	if k := c.W(12); k == 0 {
		root = g.wideSchema()
		root["x-wide"] = true
	} else if k <= 4 {
		root = g.clusterSchema()
		root["x-cluster"] = true
	} else if k <= 6 && !draft7 {
		root = g.annotationSchema(2)
		root["x-annot"] = true
	} else {
		root = g.schema(3, false)
	}
	if draft7 {
		root["$schema"] = "http://json-schema.org/draft-07/schema#"
	} else if c.W(3) == 0 {
		root["$schema"] = "https://json-schema.org/draft/2020-12/schema"
	}
	if nd > 0 {
		defs := map[string]any{}
		g.inDef = true
		for _, d := range g.defs {
			defs[d] = g.schema(2, false)
		}
		g.inDef = false
		root[g.defsKey()] = defs
	}
	return root
}

// wideSchema: an object schema with 33-70 properties (implementations may switch strategy
// with size: pooled buffers, pre-sized tables, different algorithms above a threshold).
func (g *schemaGen) wideSchema() map[string]any {
	c := g.c
	n := 33 + c.W(38)
	if c.W(5) == 0 {
		n = 130 + c.W(170) // beyond the next few powers of two as well
	}
	props := map[string]any{}
	var req []any
	for i := 0; i < n; i++ {
		k := fmt.Sprintf("p%03d", i)
		sub := map[string]any{}
		g.leaf(sub)
		props[k] = sub
		if c.W(8) == 0 {
			req = append(req, k)
		}
	}
	s := map[string]any{"type": "object", "properties": props}
	if len(req) > 0 {
		s["required"] = req
	}
	if c.W(2) == 0 {
		s["additionalProperties"] = false
	}
	if c.W(3) == 0 {
		s["patternProperties"] = map[string]any{"^p0": map[string]any{}, "^p1": map[string]any{"type": []any{"integer", "string", "null", "boolean", "number", "array", "object"}}}
	}
	if c.W(3) == 0 {
		s["maxProperties"] = n
	}
	return s
}

// GenWideDoc returns a wide object schema document.
func GenWideDoc(c *Ctx) map[string]any {
	g := &schemaGen{c: c}
	root := g.wideSchema()
	root["x-wide"] = true
	return root
}

// wideInstance has most of the wide schema's keys.
func wideInstance(c *Ctx, s map[string]any) any {
	m := map[string]any{}
	props, _ := s["properties"].(map[string]any)
	for _, k := range sortedKeys(props) {
		if c.W(5) != 0 {
			sub, _ := props[k].(map[string]any)
			m[k] = GenInstanceFor(c, sub, 1)
		}
	}
	if c.W(4) == 0 {
		m["zz"] = 1.0
	}
	return m
}

// interacting subschemas: small schemas whose effect depends on which sibling ran
// before them (annotations, required sets, additional/unevaluated properties).
func (g *schemaGen) cluster() map[string]any {
	c := g.c
	k := func() string { return pick(c, propPool) }
	switch c.W(13) {
	case 11, 12:
		// a dependent subschema that evaluates further members, held by a schema with no other
		// property keyword (12) or next to "properties" (11)
		dep := map[string]any{k(): map[string]any{"properties": map[string]any{k(): map[string]any{}}}, k(): map[string]any{"properties": map[string]any{k(): map[string]any{"type": pick(c, typePool)}}}}
		s := map[string]any{}
		if g.draft7 {
			s["dependencies"] = dep
		} else {
			s["dependentSchemas"] = dep
		}
		if c.W(2) == 0 {
			s["properties"] = map[string]any{k(): map[string]any{}}
		}
		return s
	case 10:
		// succeeds on every object and marks every property as evaluated
		if g.draft7 {
			return map[string]any{"additionalProperties": map[string]any{}}
		}
		if c.W(2) == 0 {
			return map[string]any{"unevaluatedProperties": true}
		}
		return map[string]any{"unevaluatedProperties": map[string]any{}}
	case 0:
		return map[string]any{"required": []any{k()}}
	case 1:
		if g.draft7 {
			return map[string]any{"additionalProperties": false, "properties": map[string]any{k(): map[string]any{}}}
		}
		return map[string]any{"unevaluatedProperties": false}
	case 2:
		if g.draft7 {
			return map[string]any{"maxProperties": 1 + c.W(3)}
		}
		return map[string]any{"unevaluatedProperties": map[string]any{"type": pick(c, typePool)}}
	case 3:
		return map[string]any{"properties": map[string]any{k(): map[string]any{"type": pick(c, typePool)}, k(): map[string]any{}}}
	case 4:
		return map[string]any{"additionalProperties": false, "properties": map[string]any{k(): map[string]any{}, k(): map[string]any{}}}
	case 5:
		return map[string]any{"minProperties": 1 + c.W(3)}
	case 6:
		return map[string]any{"patternProperties": map[string]any{pick(c, patternPool): map[string]any{"type": pick(c, typePool)}}}
	case 7:
		return map[string]any{"propertyNames": map[string]any{"pattern": pick(c, patternPool)}}
	case 8:
		return map[string]any{"properties": map[string]any{k(): false}}
	default:
		return map[string]any{}
	}
}

// GenAnnotationDoc returns a 2020-12 document built by annotationSchema.
func GenAnnotationDoc(c *Ctx) map[string]any {
	g := &schemaGen{c: c}
	root := g.annotationSchema(2)
	root["x-annot"] = true
	return root
}

// annotationSchema builds a 2020-12 schema whose verdict hinges on annotations: an
// unevaluatedProperties (or unevaluatedItems) keyword next to in-place applicators (allOf, anyOf,
// oneOf, if/then/else, dependentSchemas, $ref-free nesting of the same) whose branches each
// evaluate some of the members. Whether an instance built from the names the branches speak
// about passes depends on every successful branch having handed up what it evaluated.
func (g *schemaGen) annotationSchema(depth int) map[string]any {
	c := g.c
	if c.W(4) == 0 {
		// the array flavour
		branch := func() map[string]any {
			switch c.W(4) {
			case 0:
				return map[string]any{"prefixItems": []any{map[string]any{}, map[string]any{"type": pick(c, typePool)}}}
			case 1:
				return map[string]any{"contains": map[string]any{"type": pick(c, typePool)}}
			case 2:
				return map[string]any{"prefixItems": []any{map[string]any{}}}
			default:
				return map[string]any{"items": map[string]any{"type": pick(c, typePool)}}
			}
		}
		s := map[string]any{"x-annot-array": true}
		s[pick(c, []string{"allOf", "anyOf"})] = []any{branch(), branch()}
		if c.W(2) == 0 {
			s["prefixItems"] = []any{map[string]any{}}
		}
		if c.W(3) == 0 {
			s["unevaluatedItems"] = map[string]any{"type": pick(c, typePool)}
		} else {
			s["unevaluatedItems"] = false
		}
		return s
	}
	k := func() string { return pick(c, propPool) }
	var branch func(d int) map[string]any
	branch = func(d int) map[string]any {
		switch c.W(9) {
		case 0:
			return map[string]any{"properties": map[string]any{k(): map[string]any{}}}
		case 1:
			return map[string]any{"properties": map[string]any{k(): map[string]any{}, k(): map[string]any{"type": pick(c, typePool)}}}
		case 2:
			return map[string]any{"properties": map[string]any{k(): map[string]any{}}, "required": []any{k()}}
		case 3:
			return map[string]any{"patternProperties": map[string]any{pick(c, patternPool): map[string]any{}}}
		case 4:
			if d > 0 {
				return map[string]any{"allOf": []any{branch(d - 1), branch(d - 1)}}
			}
			return map[string]any{"properties": map[string]any{k(): map[string]any{}}}
		case 5:
			if d > 0 {
				return map[string]any{"anyOf": []any{branch(d - 1), branch(d - 1)}}
			}
			return map[string]any{}
		case 8:
			// dependent subschemas, each of which evaluates a member when it passes; some of them fail
			dep := func() map[string]any {
				switch c.W(4) {
				case 0:
					return map[string]any{"properties": map[string]any{k(): map[string]any{}}, "required": []any{k()}}
				case 1:
					return map[string]any{"properties": map[string]any{k(): map[string]any{"type": pick(c, typePool)}}}
				case 2:
					return map[string]any{"properties": map[string]any{k(): map[string]any{}, k(): false}}
				default:
					return map[string]any{"properties": map[string]any{k(): map[string]any{}}}
				}
			}
			s := map[string]any{"dependentSchemas": map[string]any{k(): dep(), k(): dep(), k(): dep()}}
			if c.W(2) == 0 {
				s["properties"] = map[string]any{k(): map[string]any{}}
			}
			return s
		case 6:
			return map[string]any{"properties": map[string]any{k(): map[string]any{}}, "unevaluatedProperties": c.W(2) == 0}
		default:
			return map[string]any{"properties": map[string]any{k(): map[string]any{}, k(): map[string]any{}, k(): map[string]any{}}}
		}
	}
	s := map[string]any{}
	for _, kw := range subset(c, []int{0, 1, 2, 3, 4}, 1, 3) {
		switch kw {
		case 0:
			s["allOf"] = []any{branch(depth), branch(depth)}
		case 1:
			s["anyOf"] = []any{branch(depth), branch(depth), branch(depth)}
		case 2:
			s["oneOf"] = []any{branch(depth), map[string]any{"required": []any{"never-there"}}}
		case 3:
			s["if"] = branch(0)
			s["then"] = branch(depth)
			s["else"] = branch(depth)
		case 4:
			s["dependentSchemas"] = map[string]any{k(): branch(depth), k(): branch(depth)}
		}
	}
	if c.W(2) == 0 {
		s["properties"] = map[string]any{k(): map[string]any{}}
	}
	if c.W(4) == 0 {
		s["unevaluatedProperties"] = map[string]any{"type": pick(c, typePool)}
	} else {
		s["unevaluatedProperties"] = false
	}
	return s
}

// clusterSchema builds an object schema whose map-valued keywords hold
// interacting entries (the order of evaluation of the entries is Go map order).
func (g *schemaGen) clusterSchema() map[string]any {
	c := g.c
	s := map[string]any{}
	entries := func(keys []string) map[string]any {
		m := map[string]any{}
		for _, k := range keys {
			m[k] = g.cluster()
		}
		return m
	}
	reqLists := func(keys []string) map[string]any {
		m := map[string]any{}
		for _, k := range keys {
			rs := subset(c, propPool, 1, 2)
			arr := make([]any, len(rs))
			for i, r := range rs {
				arr[i] = r
			}
			m[k] = arr
		}
		return m
	}
	for _, kw := range subset(c, []int{0, 1, 2, 3, 4, 5, 6, 7}, 2, 4) {
		switch kw {
		case 7:
			rs := subset(c, propPool, 1, 5) // lists of 3, 5, 6, 7 names leave spare capacity in what is built from them
			arr := make([]any, len(rs))
			for i, r := range rs {
				arr[i] = r
			}
			if g.draft7 && c.W(4) == 0 {
				arr = append(arr, arr[0]) // draft-07 tolerates a repeated name
			}
			s["required"] = arr
		case 6:
			// several dependentRequired entries: some satisfied, some not, all applicable
			if g.draft7 {
				if _, has := s["dependencies"]; !has {
					s["dependencies"] = reqLists(subset(c, propPool, 2, 4))
				}
			} else {
				s["dependentRequired"] = reqLists(subset(c, propPool, 2, 4))
			}
		case 0:
			if _, has := s["dependencies"]; has {
				continue
			}
			if g.draft7 {
				s["dependencies"] = entries(subset(c, propPool, 2, 3))
			} else {
				s["dependentSchemas"] = entries(subset(c, propPool, 2, 3))
			}
		case 1:
			s["patternProperties"] = entries(subset(c, patternPool, 2, 3))
			if c.W(12) == 0 {
				// one key that is no regular expression next to keys that are: Resolve refuses the
				// document, whatever the order in which it looks at the keys
				s["patternProperties"].(map[string]any)[pick(c, []string{"(", "[a", "^(?!x)"})] = g.cluster()
			}
		case 2:
			s["properties"] = entries(subset(c, propPool, 2, 4))
		case 3:
			if g.draft7 || c.W(3) == 0 {
				s["additionalProperties"] = g.cluster()
			} else if c.W(2) == 0 {
				s["unevaluatedProperties"] = false
			} else {
				s["unevaluatedProperties"] = g.cluster()
			}
		case 4:
			s["allOf"] = []any{g.cluster(), g.cluster()}
		case 5:
			s["anyOf"] = []any{g.cluster(), g.cluster(), g.cluster()}
		}
	}
	return s
}

// mentionedProps lists the property names that appear under "properties", "required",
// "dependentSchemas", "dependentRequired" or "dependencies" anywhere in s.
func mentionedProps(s map[string]any) []string {
	set := map[string]bool{}
	var walk func(v any)
	walk = func(v any) {
		switch x := v.(type) {
		case map[string]any:
			for k, e := range x {
				switch k {
				case "properties", "dependentSchemas", "dependentRequired", "dependencies":
					if pm, ok := e.(map[string]any); ok {
						for n := range pm {
							set[n] = true
						}
					}
				case "required":
					if rs, ok := e.([]any); ok {
						for _, r := range rs {
							if n, ok := r.(string); ok {
								set[n] = true
							}
						}
					}
				}
				walk(e)
			}
		case []any:
			for _, e := range x {
				walk(e)
			}
		}
	}
	walk(s)
	return sortedKeys(set)
}

// clusterInstance builds an object over the same key pool with object values.
func clusterInstance(c *Ctx, s map[string]any) any {
	m := map[string]any{}
	if names := mentionedProps(s); len(names) > 0 && c.W(2) == 0 {
		// only keys that the schema's own applicators speak about: whether such an object passes
		// additional/unevaluatedProperties depends on which of them marked which key as evaluated
		for _, k := range subset(c, names, 1, len(names)) {
			switch c.W(3) {
			case 0:
				m[k] = map[string]any{}
			default:
				m[k] = GenValue(c, 0)
			}
		}
		return m
	}
	if c.W(2) == 0 {
		// homogeneous values: "all properties have type T" style subschemas pass
		t := pick(c, typePool)
		for _, k := range subset(c, propPool, 1, 5) {
			if t == "object" {
				m[k] = map[string]any{}
			} else if t == "array" {
				m[k] = []any{}
			} else {
				m[k] = valueOfType(c, t)
			}
		}
		return m
	}
	for _, k := range subset(c, propPool, 1, 5) {
		switch c.W(4) {
		case 0:
			m[k] = map[string]any{pick(c, propPool): GenValue(c, 0), pick(c, propPool): GenValue(c, 0)}
		case 1:
			m[k] = map[string]any{}
		default:
			m[k] = GenValue(c, 1)
		}
	}
	return m
}

// schema generates one subschema. descended says whether an
// instance-descending keyword lies between here and the enclosing $defs entry
// (references are only planted where every reference cycle must pass through
// instance descent, so evaluation terminates).
func (g *schemaGen) schema(depth int, descended bool) map[string]any {
	c := g.c
	s := map[string]any{}
	if depth <= 0 {
		g.leaf(s)
		return s
	}
	if !g.draft7 && c.W(5) == 0 {
		// Anchors from a pool of two names, so that the same name is sometimes declared twice in
		// one resource (the library tolerates that in 2020-12 documents: the first declaration in
		// its sorted walk wins - whatever it does must not depend on map order or on the process).
		a := pick(c, []string{"A1", "A2"})
		s["$anchor"] = a
		g.anchors = append(g.anchors, a)
		descended = false // a reference to this anchor from inside must pass through instance descent
	}
	ngroups := 1 + c.W(3)
	for i := 0; i < ngroups; i++ {
		if descended && !g.draft7 && len(g.anchors) > 0 && c.W(6) == 0 {
			s["$ref"] = "#" + pick(c, g.anchors)
			continue
		}
		switch c.W(12) {
		case 0, 1:
			g.leaf(s)
		case 2, 3, 4:
			g.object(s, depth)
		case 5, 6:
			g.array(s, depth)
		case 7, 8:
			g.logic(s, depth, descended)
		case 9:
			if len(g.defs) > 0 && (!g.inDef || descended) {
				s["$ref"] = "#/" + g.defsKey() + "/" + pick(c, g.defs)
			} else {
				g.leaf(s)
			}
		case 10:
			// annotations and unknown keywords
			switch c.W(4) {
			case 0:
				s["title"] = pick(c, stringPool)
			case 1:
				s["default"] = GenValue(c, 1)
			case 2:
				s["x-extra"] = GenValue(c, 1)
			case 3:
				s["$comment"] = "c"
			}
		case 11:
			if descended && !g.draft7 && c.W(2) == 0 {
				s["$ref"] = "#"
				if len(g.anchors) > 0 && c.W(2) == 0 {
					s["$ref"] = "#" + pick(c, g.anchors)
				}
			}
			g.leaf(s)
		}
	}
	return s
}

func (g *schemaGen) leaf(s map[string]any) {
	c := g.c
	switch c.W(9) {
	case 0:
		s["type"] = pick(c, typePool)
	case 1:
		ts := subset(c, typePool, 1, 3) // a one-element array is legal and distinct from the bare string
		arr := make([]any, len(ts))
		for i, t := range ts {
			arr[i] = t
		}
		s["type"] = arr
	case 2:
		n := 1 + c.W(3)
		arr := make([]any, n)
		for i := range arr {
			arr[i] = GenValue(c, 1)
		}
		s["enum"] = arr
	case 3:
		s["const"] = GenValue(c, 1)
	case 4:
		s["minimum"] = pick(c, numberPool)
		if c.W(2) == 0 {
			s["exclusiveMaximum"] = pick(c, numberPool)
		}
	case 5:
		s["maximum"] = pick(c, numberPool)
		if c.W(3) == 0 {
			s["multipleOf"] = []float64{1, 2, 0.5, 3}[c.W(4)]
		}
	case 6:
		s["minLength"] = c.W(3)
		if c.W(2) == 0 {
			s["maxLength"] = 1 + c.W(4)
		}
	case 7:
		s["pattern"] = pick(c, patternPool)
	case 8:
		if c.W(2) == 0 {
			s["type"] = "object"
		} else {
			s["type"] = "array"
		}
	}
}

func (g *schemaGen) object(s map[string]any, depth int) {
	c := g.c
	for _, kw := range subset(c, []int{0, 1, 2, 3, 4, 5, 6, 7, 8}, 1, 4) {
		switch kw {
		case 0:
			m := map[string]any{}
			if c.W(10) != 0 { // sometimes present but empty
				for _, k := range subset(c, propPool, 1, 4) {
					m[k] = g.schema(depth-1, true)
				}
			}
			s["properties"] = m
		case 1:
			m := map[string]any{}
			for _, k := range subset(c, patternPool, 1, 3) {
				m[k] = g.schema(depth-1, true)
			}
			s["patternProperties"] = m
		case 2:
			if c.W(3) == 0 {
				s["additionalProperties"] = false
			} else {
				s["additionalProperties"] = g.schema(depth-1, true)
			}
		case 3:
			if g.draft7 {
				continue
			}
			if c.W(2) == 0 {
				s["unevaluatedProperties"] = false
			} else {
				s["unevaluatedProperties"] = g.schema(depth-1, true)
			}
		case 4:
			rs := subset(c, propPool, 1, 2)
			arr := make([]any, len(rs))
			for i, r := range rs {
				arr[i] = r
			}
			s["required"] = arr
		case 5:
			m := map[string]any{}
			for _, k := range subset(c, propPool, 1, 3) {
				if g.draft7 && c.W(2) == 0 {
					m[k] = g.schema(depth-1, false)
					continue
				}
				rs := subset(c, propPool, 1, 2)
				arr := make([]any, len(rs))
				for i, r := range rs {
					arr[i] = r
				}
				m[k] = arr
			}
			if g.draft7 {
				s["dependencies"] = m
			} else {
				s["dependentRequired"] = m
			}
		case 6:
			if g.draft7 {
				continue
			}
			m := map[string]any{}
			for _, k := range subset(c, propPool, 1, 3) {
				m[k] = g.schema(depth-1, false)
			}
			s["dependentSchemas"] = m
		case 7:
			s["propertyNames"] = map[string]any{"pattern": pick(c, patternPool)}
		case 8:
			if c.W(2) == 0 {
				s["minProperties"] = c.W(3)
			} else {
				s["maxProperties"] = 1 + c.W(3)
			}
		}
	}
}

func (g *schemaGen) array(s map[string]any, depth int) {
	c := g.c
	for _, kw := range subset(c, []int{0, 1, 2, 3, 4, 5}, 1, 3) {
		switch kw {
		case 0:
			n := 1 + c.W(2)
			arr := make([]any, n)
			for i := range arr {
				arr[i] = g.schema(depth-1, true)
			}
			if g.draft7 {
				s["items"] = arr
				if c.W(2) == 0 {
					s["additionalItems"] = g.schema(depth-1, true)
				}
			} else {
				s["prefixItems"] = arr
			}
		case 1:
			if _, has := s["items"]; !has {
				s["items"] = g.schema(depth-1, true)
			}
		case 2:
			s["contains"] = g.schema(depth-1, true)
			if !g.draft7 && c.W(2) == 0 {
				s["minContains"] = c.W(3)
			}
			if !g.draft7 && c.W(3) == 0 {
				s["maxContains"] = 1 + c.W(2)
			}
		case 3:
			s["uniqueItems"] = true
		case 4:
			if g.draft7 {
				continue
			}
			if c.W(2) == 0 {
				s["unevaluatedItems"] = false
			} else {
				s["unevaluatedItems"] = g.schema(depth-1, true)
			}
		case 5:
			if c.W(2) == 0 {
				s["minItems"] = c.W(3)
			} else {
				s["maxItems"] = 1 + c.W(3)
			}
		}
	}
}

func (g *schemaGen) logic(s map[string]any, depth int, descended bool) {
	c := g.c
	list := func() []any {
		n := 2 + c.W(2)
		arr := make([]any, n)
		for i := range arr {
			arr[i] = g.schema(depth-1, descended)
		}
		return arr
	}
	switch c.W(5) {
	case 0:
		s["allOf"] = list()
	case 1:
		s["anyOf"] = list()
	case 2:
		s["oneOf"] = list()
	case 3:
		s["not"] = g.schema(depth-1, descended)
	case 4:
		s["if"] = g.schema(depth-1, descended)
		if c.W(3) > 0 {
			s["then"] = g.schema(depth-1, descended)
		}
		if c.W(3) > 0 {
			s["else"] = g.schema(depth-1, descended)
		}
	}
}

// GenInstanceFor generates an instance that has a fair chance of satisfying
// the schema document (guided by its top-level keywords), so that about half of
// the verdicts are "valid".
func GenInstanceFor(c *Ctx, s map[string]any, depth int) any {
	if _, ok := s["x-cluster"]; ok && c.W(5) != 0 {
		return clusterInstance(c, s)
	}
	if _, ok := s["x-annot"]; ok && c.W(6) != 0 {
		if _, arr := s["x-annot-array"]; arr {
			n := c.W(4)
			a := make([]any, n)
			for i := range a {
				a[i] = GenValue(c, 0)
			}
			return a
		}
		names := mentionedProps(s)
		m := map[string]any{}
		if len(names) > 0 {
			for _, k := range subset(c, names, 1, len(names)) {
				m[k] = GenValue(c, 0)
			}
		}
		if c.W(5) == 0 {
			m[pick(c, propPool)] = GenValue(c, 0)
		}
		return m
	}
	if _, ok := s["x-wide"]; ok && c.W(5) != 0 {
		return wideInstance(c, s)
	}
	if depth <= 0 || c.W(4) == 0 {
		return GenValue(c, 2)
	}
	if v, ok := s["const"]; ok && c.W(4) > 0 {
		return clone(v)
	}
	if e, ok := s["enum"].([]any); ok && len(e) > 0 && c.W(4) > 0 {
		return clone(e[c.W(len(e))])
	}
	if r, ok := s["$ref"].(string); ok && c.W(2) == 0 {
		_ = r
	}
	wantObj := false
	for _, k := range []string{"properties", "patternProperties", "required", "additionalProperties", "unevaluatedProperties", "dependentSchemas", "dependentRequired", "dependencies", "propertyNames"} {
		if _, ok := s[k]; ok {
			wantObj = true
		}
	}
	wantArr := false
	for _, k := range []string{"prefixItems", "items", "contains", "uniqueItems", "unevaluatedItems"} {
		if _, ok := s[k]; ok {
			wantArr = true
		}
	}
	switch t := s["type"].(type) {
	case string:
		wantObj = t == "object"
		wantArr = t == "array"
		if !wantObj && !wantArr {
			return valueOfType(c, t)
		}
	}
	switch {
	case wantObj && (!wantArr || c.W(2) == 0):
		m := map[string]any{}
		props, _ := s["properties"].(map[string]any)
		for _, k := range sortedKeys(props) {
			if c.W(3) > 0 {
				sub, _ := props[k].(map[string]any)
				m[k] = GenInstanceFor(c, sub, depth-1)
			}
		}
		if req, ok := s["required"].([]any); ok {
			for _, r := range req {
				k := r.(string)
				if _, has := m[k]; !has && c.W(4) > 0 {
					sub, _ := props[k].(map[string]any)
					m[k] = GenInstanceFor(c, sub, depth-1)
				}
			}
		}
		for _, k := range subset(c, propPool, 0, 2) {
			if _, has := m[k]; !has {
				m[k] = GenValue(c, 1)
			}
		}
		return m
	case wantArr:
		n := c.W(4)
		arr := make([]any, n)
		var pre []any
		if p, ok := s["prefixItems"].([]any); ok {
			pre = p
		} else if p, ok := s["items"].([]any); ok {
			pre = p
		}
		items, _ := s["items"].(map[string]any)
		for i := range arr {
			switch {
			case i < len(pre):
				sub, _ := pre[i].(map[string]any)
				arr[i] = GenInstanceFor(c, sub, depth-1)
			case items != nil:
				arr[i] = GenInstanceFor(c, items, depth-1)
			default:
				arr[i] = GenValue(c, 1)
			}
		}
		if n >= 2 && c.W(3) == 0 {
			arr[n-1] = clone(arr[0]) // planted duplicate
		}
		return arr
	}
	for _, k := range []string{"allOf", "anyOf", "oneOf"} {
		if l, ok := s[k].([]any); ok && len(l) > 0 {
			sub, _ := l[c.W(len(l))].(map[string]any)
			return GenInstanceFor(c, sub, depth-1)
		}
	}
	return GenValue(c, 2)
}

func valueOfType(c *Ctx, t string) any {
	switch t {
	case "null":
		return nil
	case "boolean":
		return c.W(2) == 0
	case "integer":
		return []float64{0, 1, -1, 2, 3, 10, 100, -3}[c.W(8)]
	case "number":
		return pick(c, numberPool)
	case "string":
		return pick(c, stringPool)
	}
	return GenValue(c, 1)
}

func sortedKeys[V any](m map[string]V) []string {
	ks := make([]string, 0, len(m))
	for k := range m {
		ks = append(ks, k)
	}
	sort.Strings(ks)
	return ks
}

func clone(v any) any {
	b, _ := json.Marshal(v)
	var out any
	json.Unmarshal(b, &out)
	return out
}
