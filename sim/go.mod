module verif.local/sim

go 1.23.0

require (
	github.com/google/jsonschema-go v0.0.0
	verif.local/simrt v0.0.0
)

// Development defaults (uninstrumented library). Checks build with -modfile and
// point jsonschema-go at the instrumented scratch copy of /repo's working tree.
replace github.com/google/jsonschema-go => /repo

replace verif.local/simrt => ../simrt
