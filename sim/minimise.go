package sim

import (
	"time"

	"verif.local/simrt"
)

// Minimise shrinks the decision streams of a failing trace by delta debugging
// (truncate, delete chunks, zero chunks, lower values) while the same failure
// class (property + oracle) persists. Race findings are not minimised
// in-process (the detector reports each race once per process); their traces
// are reduced by the driver through fresh-process replays of whole streams.
func Minimise(tf *TraceFile, budget time.Duration) *TraceFile {
	deadline := time.Now().Add(budget)
	cur := cloneTrace(tf)
	evals := 0
	fails := func(t *TraceFile) bool {
		evals++
		ok, _ := ReplayFile(t, nil, false)
		return ok
	}
	if !fails(cur) {
		return tf // does not reproduce in-process: leave untouched
	}
	// The recorded trace of the replay is canonical (values reduced mod n):
	// re-capture so that what we shrink is what the run actually consumed.
	order := []int{simrt.SSched, simrt.SFault, simrt.SOrder, simrt.SHash, simrt.SWorld}
	improved := true
	for improved && time.Now().Before(deadline) && evals < 1500 {
		improved = false
		for _, st := range order {
			name := simrt.StreamNames[st]
			vals := cur.Streams[name]
			// 1. drop the whole stream
			if len(vals) > 0 {
				cand := cloneTrace(cur)
				cand.Streams[name] = nil
				if fails(cand) {
					cur = cand
					improved = true
					continue
				}
			}
			// 2. truncate the tail (binary)
			for n := len(cur.Streams[name]) / 2; n >= 1 && time.Now().Before(deadline); n /= 2 {
				v := cur.Streams[name]
				if len(v) <= n {
					continue
				}
				cand := cloneTrace(cur)
				cand.Streams[name] = append([]uint64(nil), v[:len(v)-n]...)
				if fails(cand) {
					cur = cand
					improved = true
					n *= 2 // try the same step again
				}
			}
			// 3. delete / zero chunks
			for size := len(cur.Streams[name]) / 2; size >= 1 && time.Now().Before(deadline) && evals < 1500; size /= 2 {
				for i := 0; i+size <= len(cur.Streams[name]) && time.Now().Before(deadline); {
					v := cur.Streams[name]
					cand := cloneTrace(cur)
					cand.Streams[name] = append(append([]uint64(nil), v[:i]...), v[i+size:]...)
					if fails(cand) {
						cur = cand
						improved = true
						continue
					}
					allZero := true
					for _, x := range v[i : i+size] {
						if x != 0 {
							allZero = false
						}
					}
					if !allZero {
						cand = cloneTrace(cur)
						for j := i; j < i+size; j++ {
							cand.Streams[name][j] = 0
						}
						if fails(cand) {
							cur = cand
							improved = true
						}
					}
					i += size
				}
			}
			// 4. lower single values
			for i := 0; i < len(cur.Streams[name]) && time.Now().Before(deadline) && evals < 1500; i++ {
				v := cur.Streams[name][i]
				for _, nv := range []uint64{0, v / 2, v - 1} {
					if nv >= v {
						continue
					}
					cand := cloneTrace(cur)
					cand.Streams[name][i] = nv
					if fails(cand) {
						cur = cand
						improved = true
						break
					}
				}
			}
		}
	}
	// Final replay with logging to refresh the readable parts.
	ok, c := ReplayFile(cur, nil, true)
	if !ok {
		return tf
	}
	for _, f := range c.Failures {
		if cur.Matches(f) {
			cur.Detail = f.Detail
			cur.Site = f.Site
			break
		}
	}
	cur.Minimal = true
	cur.Readable = Readable()
	cur.Log = c.Log
	// strip trailing zeros: an exhausted stream yields 0 anyway
	for k, v := range cur.Streams {
		for len(v) > 0 && v[len(v)-1] == 0 {
			v = v[:len(v)-1]
		}
		cur.Streams[k] = v
	}
	return cur
}

func cloneTrace(t *TraceFile) *TraceFile {
	c := *t
	c.Streams = map[string][]uint64{}
	for k, v := range t.Streams {
		c.Streams[k] = append([]uint64(nil), v...)
	}
	return &c
}
