package sim

import (
	"os"
	"path/filepath"
	"strings"
)

// RaceWatcher reads the race detector's log (GORACE=log_path=...) between
// runs, so that each report is attributed to the run that was executing.
type RaceWatcher struct {
	prefix string
	off    int64
}

// RaceReport is one "WARNING: DATA RACE" block.
type RaceReport struct {
	Text    string
	Library bool   // attributed to the library (see classifyRace)
	Site    string // the two innermost library functions
}

// NewRaceWatcher returns a watcher if this process runs with a race log.
func NewRaceWatcher() *RaceWatcher {
	for _, kv := range strings.Fields(os.Getenv("GORACE")) {
		if strings.HasPrefix(kv, "log_path=") {
			return &RaceWatcher{prefix: strings.TrimPrefix(kv, "log_path=")}
		}
	}
	return nil
}

// Poll returns the reports written since the last call.
func (w *RaceWatcher) Poll() []RaceReport {
	matches, _ := filepath.Glob(w.prefix + ".*")
	if len(matches) == 0 {
		return nil
	}
	b, err := os.ReadFile(matches[0])
	if err != nil || int64(len(b)) <= w.off {
		return nil
	}
	text := string(b[w.off:])
	w.off = int64(len(b))
	var out []RaceReport
	for _, blk := range strings.Split(text, "==================") {
		if !strings.Contains(blk, "DATA RACE") {
			continue
		}
		out = append(out, classifyRace(blk))
	}
	return out
}

func classifyRace(blk string) RaceReport {
	// Sections: "Write at ... by goroutine N:", "Previous read at ... by goroutine M:",
	// then "Goroutine N (running) created at:" which we ignore.
	lines := strings.Split(blk, "\n")
	var stacks [][]string
	cur := -1
	for _, l := range lines {
		t := strings.TrimSpace(l)
		switch {
		case strings.HasPrefix(t, "Goroutine "):
			cur = -2 // creation stacks: ignore
		case strings.Contains(t, " by goroutine ") || strings.Contains(t, " by main goroutine"):
			stacks = append(stacks, nil)
			cur = len(stacks) - 1
		case cur >= 0 && strings.Contains(t, "(") && !strings.HasPrefix(t, "/"):
			stacks[cur] = append(stacks[cur], t)
		}
	}
	rep := RaceReport{Text: strings.TrimSpace(blk)}
	if len(rep.Text) > 3000 {
		rep.Text = rep.Text[:3000]
	}
	// Attribution. A report belongs to the library if at least one of the two accesses happened
	// under a jsonschema frame and neither access was made by the simulator runtime itself. The second
	// clause matters for the pattern "the library hands out memory it keeps writing to": the
	// caller's read of the returned bytes happens in standard-library code (encoding/json
	// compacting the output of MarshalJSON) with no jsonschema frame left on the stack.
	var sites []string
	lib := len(stacks) >= 2
	anyLib := false
	for _, st := range stacks {
		found := ""
		harnessAccess := false
		for _, fr := range st {
			if strings.HasPrefix(fr, "runtime.") {
				continue
			}
			// Only the simulator runtime itself is excluded. A write made by a driver goes to
			// memory the driver owns (its clone, its private instance, a result of For): if the
			// library reads the same memory from another goroutine, the library has shared
			// something it must not share (seeded change w9e: CloneSchemas sharing empty maps).
			harnessAccess = strings.HasPrefix(fr, "verif.local/simrt.")
			break
		}
		for _, fr := range st {
			if strings.HasPrefix(fr, libPrefix) {
				fn := strings.TrimPrefix(fr, libPrefix)
				if i := strings.IndexByte(fn, '['); i > 0 && !strings.HasPrefix(fn, "(") {
					fn = fn[:i]
				}
				if i := strings.IndexByte(fn, '('); i > 0 && !strings.HasPrefix(fn, "(") {
					fn = fn[:i]
				} else if strings.HasPrefix(fn, "(") {
					// method: (*T).name(...)
					if j := strings.Index(fn, ")."); j > 0 {
						rest := fn[j+2:]
						if k := strings.IndexByte(rest, '('); k > 0 {
							rest = rest[:k]
						}
						fn = fn[:j+2] + rest
					}
				}
				if i := strings.Index(fn, ".func"); i > 0 {
					fn = fn[:i]
				}
				if i := strings.IndexByte(fn, '['); i > 0 {
					fn = fn[:i] // generic instantiation
				}
				found = fn
				break
			}
		}
		if found != "" {
			anyLib = true
		} else {
			found = "(caller of the library)"
			if harnessAccess {
				lib = false
			}
		}
		sites = append(sites, found)
	}
	rep.Library = lib && anyLib
	if len(sites) > 2 {
		sites = sites[:2]
	}
	// order-independent classifier
	if len(sites) == 2 && sites[1] < sites[0] {
		sites[0], sites[1] = sites[1], sites[0]
	}
	rep.Site = strings.Join(sites, " / ")
	return rep
}
