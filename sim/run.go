package sim

import (
	"encoding/json"
	"fmt"
	"hash/fnv"
	"os"
	"sort"
	"strings"
	"time"

	"verif.local/simrt"
)

// TraceFile is a replay file: the decisions of one run, split by stream.
type TraceFile struct {
	Property string              `json:"property"`
	Oracle   string              `json:"oracle"`
	Site     string              `json:"site"`
	Seed     uint64              `json:"seed"`
	Run      int                 `json:"run"`
	Tier     string              `json:"tier"`
	Driver   string              `json:"driver"` // the workload that was running (may differ from Property)
	Env      map[string]string   `json:"env"`
	Build    string              `json:"build"` // "plain" or "race"
	Streams  map[string][]uint64 `json:"streams"`
	Overflow bool                `json:"overflow,omitempty"`
	Minimal  bool                `json:"minimised"`
	Detail   string              `json:"detail"`
	Readable []string            `json:"readable_schedule_and_faults"`
	Log      []string            `json:"event_log"`
}

// Matches reports whether f is the failure class this trace was recorded for.
func (tf *TraceFile) Matches(f Failure) bool {
	if f.Property != tf.Property || f.Oracle != tf.Oracle {
		return false
	}
	if tf.Oracle == "C13/race" {
		// which two of several conflicting accesses the detector pairs up is its own choice
		return true
	}
	return tf.Site == "" || f.Site == tf.Site
}

func propHash(p string) uint64 {
	h := fnv.New64a()
	h.Write([]byte(p))
	return h.Sum64()
}

// RunSeed derives the seed of run index of a property's batch.
func RunSeed(seed uint64, driver string, index int) uint64 {
	return simrt.Mix(simrt.Mix(seed, propHash(driver)), uint64(index))
}

// RunOne executes one simulated run. With tf != nil the decisions are replayed
// from the file instead of drawn from the seed.
func RunOne(driver, tier string, seed uint64, index int, tf *TraceFile, log bool) *Ctx {
	rs := RunSeed(seed, driver, index)
	simrt.Reset(rs)
	if tf != nil {
		for i := 0; i < simrt.NStreams; i++ {
			simrt.SetReplay(i, tf.Streams[simrt.StreamNames[i]])
		}
	}
	if simrt.ResetCaches != nil {
		simrt.ResetCaches()
	}
	// Safety net: library code that a driver runs outside Op still cannot run away.
	simrt.SetStepBudget(20 * DefaultBudget)
	c := newCtx(driver, tier, index, rs)
	c.Replay = tf != nil
	c.logOn = log
	d := Drivers[driver]
	if d == nil {
		panic("no driver " + driver)
	}
	func() {
		defer func() {
			if r := recover(); r != nil {
				// A panic that escapes a driver is a harness bug, never a finding.
				fmt.Fprintf(os.Stderr, "HARNESS-PANIC driver=%s seed=%d index=%d: %v\n", driver, seed, index, r)
				panic(r)
			}
		}()
		d(c)
	}()
	return c
}

// Capture turns the recorded decisions of the last run into a TraceFile.
func Capture(c *Ctx, f Failure, seed uint64, build string) *TraceFile {
	tf := &TraceFile{Property: f.Property, Oracle: f.Oracle, Site: f.Site, Seed: seed, Run: c.Index,
		Tier: c.Tier, Driver: c.Prop, Build: build, Streams: map[string][]uint64{}, Detail: f.Detail,
		Env: map[string]string{"JSONSCHEMAGODEBUG": os.Getenv("JSONSCHEMAGODEBUG")}}
	for i := 0; i < simrt.NStreams; i++ {
		recs, over := simrt.Trace(i)
		vals := make([]uint64, len(recs))
		for j, r := range recs {
			vals[j] = r.V
		}
		tf.Streams[simrt.StreamNames[i]] = vals
		if over {
			tf.Overflow = true
		}
	}
	tf.Readable = Readable()
	return tf
}

// Readable renders the non-world streams of the last run for humans.
func Readable() []string {
	var out []string
	for _, st := range []int{simrt.SOrder, simrt.SHash, simrt.SSched, simrt.SFault} {
		recs, _ := simrt.Trace(st)
		n := 0
		for _, r := range recs {
			if r.V == 0 {
				continue // the default decision
			}
			n++
			if n > 60 {
				out = append(out, fmt.Sprintf("%s: … (%d decisions in all)", simrt.StreamNames[st], len(recs)))
				break
			}
			out = append(out, fmt.Sprintf("%s: %d of %d at %s", simrt.StreamNames[st], r.V, r.N, simrt.SiteName(r.Site)))
		}
	}
	return out
}

// FailureRec is a failure together with what is needed to replay it.
type FailureRec struct {
	Failure
	Index int        `json:"index"`
	Trace *TraceFile `json:"trace,omitempty"`
}

// WorkerOut is what one worker process reports.
type WorkerOut struct {
	Driver       string            `json:"driver"`
	Tier         string            `json:"tier"`
	Seed         uint64            `json:"seed"`
	Build        string            `json:"build"`
	Evaluations  int               `json:"evaluations"`
	Nontrivial   int               `json:"nontrivial"`
	DistinctKeys []string          `json:"distinct_keys"` // of non-trivial runs
	Digests      map[int][2]string `json:"digests"`
	Faults       map[string]int    `json:"faults"`
	Probes       map[string]int    `json:"probes"`
	Steps        int64             `json:"steps"`
	OrderVisits  int64             `json:"order_visits"`
	OrderMulti   int64             `json:"order_multi"`
	OrderNoncan  int64             `json:"order_noncanonical"`
	Uncontrolled int64             `json:"uncontrolled_visits"`
	Switches     int64             `json:"switches"`
	Preemptions  int64             `json:"preemptions"`
	CacheMisses  int64             `json:"cache_misses_injected"`
	HashMasked   int64             `json:"hash_masked"`
	OrderHashes  []string          `json:"order_hashes"`
	SchedHashes  []string          `json:"sched_hashes"`
	Samples      []any             `json:"samples"`
	Failures     []FailureRec      `json:"failures"`
	FailureCount int               `json:"failure_count"`
	Sites        map[string][3]int `json:"sites,omitempty"` // controlled seam sites: visits, >=2 entries, uncontrolled
	UnctlSources []string          `json:"uncontrolled_sources,omitempty"`
	Instrumented bool              `json:"instrumented"`
	Rule         string            `json:"rule"`
	Level        string            `json:"level"`
	Assumptions  []string          `json:"assumptions"`
	WallS        float64           `json:"wall_s"`
	RaceReports  int               `json:"race_reports"`
	HarnessRaces int               `json:"harness_race_reports"`
}

// RunBatch executes runs [from, to) of a driver and aggregates.
func RunBatch(driver, tier string, seed uint64, indices []int, build string, race *RaceWatcher, deadline time.Time) *WorkerOut {
	t0 := time.Now()
	out := &WorkerOut{Driver: driver, Tier: tier, Seed: seed, Build: build, Digests: map[int][2]string{},
		Faults: map[string]int{}, Probes: map[string]int{}, Instrumented: simrt.Instrumented(),
		Rule: Rules[driver], Level: Levels[driver], Assumptions: Assumptions[driver]}
	dk := map[string]bool{}
	oh := map[string]bool{}
	sh := map[string]bool{}
	for n, idx := range indices {
		if !deadline.IsZero() && time.Now().After(deadline) {
			break
		}
		c := RunOne(driver, tier, seed, idx, nil, n < 2)
		st := simrt.GetStats()
		if race != nil {
			for _, rep := range race.Poll() {
				if rep.Library {
					out.RaceReports++
					c.Failures = append(c.Failures, Failure{Property: "C13", Oracle: "C13/race", Site: rep.Site, Detail: rep.Text})
				} else {
					out.HarnessRaces++
					fmt.Fprintf(os.Stderr, "HARNESS-RACE driver=%s index=%d:\n%s\n", driver, idx, rep.Text)
				}
			}
		}
		out.Evaluations++
		key := hexsum(c.distinct)
		if c.Nontrivial {
			out.Nontrivial++
			dk[key] = true
		}
		out.Digests[idx] = [2]string{hexsum(c.in), hexsum(c.out)}
		for k, v := range c.Faults {
			out.Faults[k] += v
		}
		for k, v := range c.Probes {
			out.Probes[k] += v
		}
		out.Steps += st.Steps
		out.OrderVisits += st.OrderVisits
		out.OrderMulti += st.OrderMulti
		out.OrderNoncan += st.OrderNoncanon
		out.Uncontrolled += st.Uncontrolled
		out.Switches += st.Switches
		out.Preemptions += st.Preemptions
		out.CacheMisses += st.CacheMissesInj
		out.HashMasked += st.Sum64Masked
		oh[fmt.Sprintf("%x", st.OrderHash)] = true
		if st.Switches > 0 {
			sh[fmt.Sprintf("%x", st.SchedHash)] = true
		}
		if n < 2 && c.Sample != nil {
			out.Samples = append(out.Samples, map[string]any{"run": idx, "case": c.Sample})
		}
		if len(c.Failures) > 0 {
			out.FailureCount += len(c.Failures)
			seen := map[string]bool{}
			for _, f := range c.Failures {
				if seen[f.Key()] || len(out.Failures) >= 40 {
					continue
				}
				seen[f.Key()] = true
				tf := Capture(c, f, seed, build)
				out.Failures = append(out.Failures, FailureRec{Failure: f, Index: idx, Trace: tf})
			}
		}
	}
	out.DistinctKeys = setKeys(dk)
	out.OrderHashes = setKeys(oh)
	out.SchedHashes = setKeys(sh)
	if simrt.Instrumented() {
		v, m, u := simrt.SiteCounts()
		out.Sites = map[string][3]int{}
		for i := range v {
			name := simrt.SiteName(uint32(i))
			if strings.Contains(name, " yield") {
				continue
			}
			out.Sites[name] = [3]int{int(v[i]), int(m[i]), int(u[i])}
		}
		out.UnctlSources = simrt.UncontrolledSources
	}
	out.WallS = time.Since(t0).Seconds()
	return out
}

func setKeys(m map[string]bool) []string {
	out := make([]string, 0, len(m))
	for k := range m {
		out = append(out, k)
	}
	sort.Strings(out)
	return out
}

// ReplayFile replays a trace file and reports whether the same failure class
// (property, oracle) occurs again.
func ReplayFile(tf *TraceFile, race *RaceWatcher, log bool) (bool, *Ctx) {
	c := RunOne(tf.Driver, tf.Tier, tf.Seed, tf.Run, tf, log)
	if race != nil {
		for _, rep := range race.Poll() {
			if rep.Library {
				c.Failures = append(c.Failures, Failure{Property: "C13", Oracle: "C13/race", Site: rep.Site, Detail: rep.Text})
			}
		}
	}
	for _, f := range c.Failures {
		if tf.Matches(f) {
			return true, c
		}
	}
	return false, c
}

// LoadTrace reads a replay file.
func LoadTrace(path string) (*TraceFile, error) {
	b, err := os.ReadFile(path)
	if err != nil {
		return nil, err
	}
	var tf TraceFile
	if err := json.Unmarshal(b, &tf); err != nil {
		return nil, err
	}
	return &tf, nil
}
