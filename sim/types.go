package sim

import "reflect"

// CorpusType is one Go type of the inference corpus.
type CorpusType struct {
	Name string
	T    reflect.Type
	// Recursive types must make For return an error.
	Recursive bool
	// Invalid: contains a kind For does not support (error unless IgnoreInvalidTypes).
	Invalid bool
}

// TypeCorpus is filled in types_corpus.go.
var TypeCorpus []CorpusType

// TSTypes are the types that TypeSchemas overrides are drawn from.
var TSTypes = map[string]reflect.Type{}
