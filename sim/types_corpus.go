package sim

import (
	"encoding/json"
	"log/slog"
	"math/big"
	"reflect"
	"time"
)

// The inference corpus: declared types covering nesting, embedding, shadowing,
// tags, recursion, unsupported kinds at depth and the stdlib marshaler types.

type tBasic struct {
	B   bool
	I   int
	I8  int8
	U16 uint16
	F   float64
	S   string
}

type tTags struct {
	A string  `json:"a"`
	B int     `json:"b,omitempty"`
	C *int    `json:"c,omitzero"`
	D string  `json:"-"`
	E string  `json:"-,"`
	F float32 `json:",omitempty"`
	G []int   `json:"g" jsonschema:"a list of ints"`
	h int
}

type tInner struct {
	X int    `json:"x"`
	Y string `json:"y,omitempty"`
}

type tOuter struct {
	In   tInner            `json:"in"`
	PIn  *tInner           `json:"pin"`
	Ins  []tInner          `json:"ins"`
	M    map[string]tInner `json:"m"`
	Arr  [2]tInner         `json:"arr"`
	Same tInner            `json:"same"` // the same named type several times
}

type tEmbedded struct {
	tInner
	Z bool `json:"z"`
}

type TExp struct {
	P int `json:"p"`
	Q int `json:"q"`
}

type tEmbedExported struct {
	TExp
	R string `json:"r"`
}

type tEmbedPtr struct {
	*TExp
	S string `json:"s"`
}

type tShadow struct {
	TExp
	P string `json:"p"` // shadows TExp.P
}

type tDeep struct {
	L1 struct {
		L2 struct {
			L3 []map[string]*tInner `json:"l3"`
		} `json:"l2"`
	} `json:"l1"`
}

type tStd struct {
	T  time.Time  `json:"t"`
	PT *time.Time `json:"pt"`
	L  slog.Level `json:"l"`
	BI big.Int    `json:"bi"`
	PB *big.Int   `json:"pb"`
	BR big.Rat    `json:"br"`
	BF big.Float  `json:"bf"`
	TS []time.Time
}

type tIface struct {
	A any            `json:"a"`
	M map[string]any `json:"m"`
	R json.RawMessage
}

type tRec struct {
	Next *tRec `json:"next"`
	V    int   `json:"v"`
}

type tMutA struct {
	B *tMutB `json:"b"`
}
type tMutB struct {
	A []tMutA `json:"a"`
}

type tRecMap struct {
	Kids map[string]tRecMap `json:"kids"`
}

type tBadFunc struct {
	OK int    `json:"ok"`
	F  func() `json:"f"`
}

type tBadDeep struct {
	OK string `json:"ok"`
	In struct {
		C chan int     `json:"c"`
		M map[int]bool `json:"m"`
		Z complex128   `json:"z"`
	} `json:"in"`
	L []func() `json:"l"`
}

type tNamedSlice []tInner
type tNamedMap map[string]*tInner
type tNamedString string
type tNamedInt int32

type tNamedFields struct {
	NS  tNamedSlice  `json:"ns"`
	NM  tNamedMap    `json:"nm"`
	Str tNamedString `json:"str"`
	PI  *tNamedInt   `json:"pi"`
	PP  **tNamedInt  `json:"pp"`
	SP  []*tNamedString
}

type tDupNames struct {
	A int `json:"x"`
	B int `json:"x"`
	C int `json:"y"`
}

type tManyFields struct {
	Z, Y, X, W, V, U, T, S, R, Q int
}

// named unsupported kinds, occurring several times
type tCallback func(int) error
type tSignal chan struct{}
type tPhase complex64
type tIntKeyed map[int]string

type tHooks struct {
	Name   string    `json:"name"`
	Before tCallback `json:"before"`
	After  tCallback `json:"after"`
	Done   tSignal   `json:"done"`
}

type tHooksDeep struct {
	List  []tCallback          `json:"list"`
	ByKey map[string]tCallback `json:"by_key"`
	P1    *tPhase              `json:"p1"`
	P2    tPhase               `json:"p2"`
	K1    tIntKeyed            `json:"k1"`
	K2    []tIntKeyed          `json:"k2"`
	OK    int                  `json:"ok"`
}

type tNestedHooks struct {
	A tHooks  `json:"a"`
	B *tHooks `json:"b"`
	C []tHooks
}

type tTwice struct {
	First  tTags `json:"first"`
	Second tTags `json:"second"`
	Third  *tTags
}

func init() {
	add := func(name string, v any, rec, inv bool) {
		TypeCorpus = append(TypeCorpus, CorpusType{Name: name, T: reflect.TypeOf(v), Recursive: rec, Invalid: inv})
	}
	add("bool", false, false, false)
	add("int", 0, false, false)
	add("uint8", uint8(0), false, false)
	add("int64", int64(0), false, false)
	add("float32", float32(0), false, false)
	add("string", "", false, false)
	add("*string", new(string), false, false)
	add("[]int", []int{}, false, false)
	add("[3]string", [3]string{}, false, false)
	add("[]*int", []*int{}, false, false)
	add("map[string]int", map[string]int{}, false, false)
	add("map[string][]string", map[string][]string{}, false, false)
	add("any", new(any), false, false)
	add("tBasic", tBasic{}, false, false)
	add("*tBasic", &tBasic{}, false, false)
	add("tTags", tTags{}, false, false)
	add("tInner", tInner{}, false, false)
	add("tOuter", tOuter{}, false, false)
	add("tEmbedded", tEmbedded{}, false, false)
	add("tEmbedExported", tEmbedExported{}, false, false)
	add("tEmbedPtr", tEmbedPtr{}, false, false)
	add("tShadow", tShadow{}, false, false)
	add("tDeep", tDeep{}, false, false)
	add("tStd", tStd{}, false, false)
	add("tIface", tIface{}, false, false)
	add("tNamedSlice", tNamedSlice{}, false, false)
	add("tNamedMap", tNamedMap{}, false, false)
	add("tNamedFields", tNamedFields{}, false, false)
	add("tDupNames", tDupNames{}, false, false)
	add("tManyFields", tManyFields{}, false, false)
	add("tTwice", tTwice{}, false, false)
	add("[]tOuter", []tOuter{}, false, false)
	add("map[string]*tOuter", map[string]*tOuter{}, false, false)
	add("time.Time", time.Time{}, false, false)
	add("*big.Int", new(big.Int), false, false)
	add("tRec", tRec{}, true, false)
	add("tMutA", tMutA{}, true, false)
	add("*tMutB", &tMutB{}, true, false)
	add("tRecMap", tRecMap{}, true, false)
	add("tBadFunc", tBadFunc{}, false, true)
	add("tBadDeep", tBadDeep{}, false, true)
	add("map[int]string", map[int]string{}, false, true)
	add("chan int", make(chan int), false, true)
	add("[]func()", []func(){}, false, true)
	add("tHooks", tHooks{}, false, true)
	add("tHooksDeep", tHooksDeep{}, false, true)
	add("tNestedHooks", tNestedHooks{}, false, true)
	add("[]tCallback", []tCallback{}, false, true)
}

// corpusIndex finds a corpus type by name.
func corpusIndex(name string) int {
	for i, t := range TypeCorpus {
		if t.Name == name {
			return i
		}
	}
	return -1
}

func init() {
	TSTypes["tInner"] = reflect.TypeOf(tInner{})
	TSTypes["TExp"] = reflect.TypeOf(TExp{})
	TSTypes["time.Time"] = reflect.TypeOf(time.Time{})
	TSTypes["tTags"] = reflect.TypeOf(tTags{})
	TSTypes["tBasic"] = reflect.TypeOf(tBasic{})
	TSTypes["big.Int"] = reflect.TypeOf(big.Int{})
	TSTypes["tNamedString"] = reflect.TypeOf(tNamedString(""))
	TSTypes["tNamedInt"] = reflect.TypeOf(tNamedInt(0))
	TSTypes["string"] = reflect.TypeOf("")
	TSTypes["int"] = reflect.TypeOf(0)
	TSTypes["slog.Level"] = reflect.TypeOf(slog.Level(0))
}

// CorpusMentioning maps a TSTypes name to the indices of the corpus types whose structure
// mentions that type (as a field, an embedded field, an element or a key, behind pointers): an
// override only matters for such types.
var CorpusMentioning = map[string][]int{}

func init() {
	var mentions func(t, want reflect.Type, seen map[reflect.Type]bool, depth int) bool
	mentions = func(t, want reflect.Type, seen map[reflect.Type]bool, depth int) bool {
		if t == want {
			return true
		}
		if seen[t] || depth > 6 {
			return false
		}
		seen[t] = true
		switch t.Kind() {
		case reflect.Pointer, reflect.Slice, reflect.Array:
			return mentions(t.Elem(), want, seen, depth+1)
		case reflect.Map:
			return mentions(t.Key(), want, seen, depth+1) || mentions(t.Elem(), want, seen, depth+1)
		case reflect.Struct:
			for i := 0; i < t.NumField(); i++ {
				if mentions(t.Field(i).Type, want, seen, depth+1) {
					return true
				}
			}
		}
		return false
	}
	for _, name := range sortedKeys(TSTypes) {
		for i, ct := range TypeCorpus {
			if ct.T != TSTypes[name] && mentions(ct.T, TSTypes[name], map[reflect.Type]bool{}, 0) {
				CorpusMentioning[name] = append(CorpusMentioning[name], i)
			}
		}
	}
}
