package sim

import (
	"encoding/json"
	"errors"
	"fmt"
	"net/url"
	"strings"

	"github.com/google/jsonschema-go/jsonschema"
)

// A Universe is a simulated document store: 1..5 schema documents on two hosts
// plus urn: ids, each a tree of "hops". A hop is a subschema
//
//	{"properties": {"v": {"const": <unique marker>}, "n": {"$ref": R1}, "m": {"$ref": R2}}, "$defs": {...}}
//
// so that the instance {"n":{"m":{"v":X}}} walks the reference graph by
// instance descent (cycles are legal and terminate) and is valid iff X is the
// marker of the hop that the specification designates for that path. Every
// $ref is built FROM its intended target: the generator picks a syntactic form
// and relativises the target's URI against the referrer's base, so the
// expected target is known by construction.
type Universe struct {
	HasDefaults  bool
	BadDefaultAt *Node
	Reloc        bool // see UniOpts.Relocatable
	Draft7       bool
	BaseURI      string // BaseURI option for resolving Docs[0]; may be ""
	Docs         []*Doc
	Nodes        []*Node
	Dangle       *Edge // the one planted dangling reference, if any
}

// Doc is one document of the store.
type Doc struct {
	Index   int
	URI     string // retrieval URI
	Canon   string // canonical URI of the root resource (== URI unless the root has an $id)
	Root    *Node
	Nodes   []*Node
	Body    map[string]any
	Text    string
	NoDraft bool // remote draft-07 document without its own $schema
	RelID   bool // the root $id is relative: the canonical URI depends on the retrieval URI, so
	// other documents can name this one by its retrieval URI only
}

// Node is a hop.
type Node struct {
	ID     int
	Marker string
	Doc    *Doc
	Parent *Node
	Key    string // key under the parent's $defs
	IsRes  bool   // schema resource root: document root or has a base-changing $id
	IDText string
	Base   *url.URL // base URI of the enclosing resource
	Res    *Node    // enclosing resource root
	Anchor string
	Kids   []*Node
	Next   [2]*Edge
	Depth  int
	// A leaf is a subschema {"properties":{"f<ID>":false}} without references; hops
	// refer to leaves IN PLACE (allOf:[{$ref}]), so a leaf applies at the hop's own
	// instance location: the probe {"f<ID>":1} there is invalid iff the reference
	// reaches this leaf.
	Leaf bool
	// An alias is a subschema that consists of one "$ref" and nothing else (it also carries the
	// Leaf flag, so that nothing else is hung on it). Its InPlace edge leads to a leaf or to an
	// alias created before it; a reference to an alias designates what the chain ends in.
	Alias   bool
	InPlace *Edge
	// Default, if set, is rendered as the hop's "default": an instance that follows one of the
	// hop's own references and carries the right marker (or, for the one planted bad default, a
	// wrong one). Resolve(ValidateDefaults) walks the reference graph with it.
	Default any
}

// Edge is one reference.
type Edge struct {
	From   *Node
	Slot   int
	To     *Node  // nil for a dangling reference
	Text   string // the $ref value
	Form   string // syntactic form, for coverage statistics
	Dangle string // kind of dangling reference
	// SiblingID: draft-07 only. An "$id" written beside the "$ref"; draft-07 says that every
	// keyword beside $ref is ignored, so it must neither change a base nor declare an anchor.
	SiblingID string
}

var slotName = [2]string{"n", "m"}

var (
	docURIPool = []string{
		"http://a.test/r.json", "http://a.test/d/x.json", "http://a.test/d/e/y.json",
		"http://a.test/d/z.json", "http://b.test/r.json", "http://b.test/d/x.json", "http://b.test/q/w.json",
		"http://Mixed.Case.test/r.json", "http://Mixed.Case.test/d/x.json", "http://Mixed.Case.test/d/e/y.json", "http://Mixed.Case.test/q.json", // host names are case-insensitive; nothing may depend on their spelling being normalised
	}
	relIDPool  = []string{"e1.json", "sub/e2.json", "../up/e3.json", "/abs/e4.json", "./e5.json", "sub/deep/e6.json", "e7"}
	absIDPool  = []string{"http://a.test/emb/a1.json", "http://b.test/emb/b1.json", "urn:x:e1", "urn:x:e2", "http://c.test/c1.json"}
	rootIDPool = []string{"http://a.test/canon/k1.json", "http://b.test/canon/k2.json", "http://c.test/canon/k3.json", "urn:x:root1"}
	anchorPool = []string{"foo", "bar", "baz"}
	keyPool    = []string{"h1", "h2", "h3", "k/s", "t~d", "p%q", "s p", "h4"}
)

// UniOpts controls universe generation.
type UniOpts struct {
	Draft7   bool
	MaxDocs  int
	Dangling bool // plant exactly one dangling reference in a document that must be loaded
	// RootInPlace: give the root hop an in-place reference into another document where possible
	// (the root then depends, at its own instance location, on what the Loader returns).
	RootInPlace bool
	// Relocatable: one host, no absolute $id, no absolute or network-path references, so that
	// the whole universe can be served from another host as well (a mirror).
	Relocatable bool
	// Defaults: a third of the hops declare a valid default; BadDefault additionally plants one
	// invalid default in the root document.
	Defaults   bool
	BadDefault bool
}

func (u *Universe) defsKey() string {
	if u.Draft7 {
		return "definitions"
	}
	return "$defs"
}

// GenUniverse draws a universe from the world stream.
func GenUniverse(c *Ctx, o UniOpts) *Universe {
	u := &Universe{Draft7: o.Draft7, Reloc: o.Relocatable}
	maxDocs := o.MaxDocs
	if maxDocs == 0 {
		maxDocs = 5
	}
	nd := 1 + c.W(maxDocs)
	pool := docURIPool
	if !o.Relocatable && c.W(8) == 0 {
		pool = docURIPool[7:] // every document on the host whose name is written in mixed case
		if nd > len(pool) {
			nd = len(pool)
		}
	}
	if o.Relocatable {
		pool = docURIPool[:4] // one host
		if nd > 4 {
			nd = 4
		}
		if nd < 2 {
			nd = 2
		}
	}
	uris := subsetShuffled(c, pool, nd)
	used := map[string]bool{}
	for _, s := range uris {
		used[s] = true
	}
	// Root configuration.
	rootHasBase := c.W(4) != 0 || o.Relocatable
	for i := 0; i < nd; i++ {
		d := &Doc{Index: i, URI: uris[i], Canon: uris[i]}
		u.Docs = append(u.Docs, d)
		root := &Node{Doc: d, IsRes: true}
		root.Res = root
		if i > 0 && c.W(4) == 0 {
			root.Leaf = true // a leaf document: referred to in place, without fragment
		}
		var base *url.URL
		if i == 0 && !rootHasBase {
			u.BaseURI = ""
			base = &url.URL{}
		} else {
			base, _ = url.Parse(d.URI)
			if i == 0 {
				u.BaseURI = d.URI
			}
		}
		// Root $id: none (mostly), same as retrieval, other absolute (alias), relative.
		switch k := c.W(8); {
		case o.Relocatable:
			// no root $id: the document is identified by where it is retrieved from
		case k == 0:
			root.IDText = d.URI
			if i == 0 && !rootHasBase {
				base, _ = url.Parse(d.URI)
			}
		case k == 1 || k == 3:
			id := pick(c, rootIDPool)
			if !used[id] {
				used[id] = true
				root.IDText = id
				base, _ = url.Parse(id)
				d.Canon = id
			}
		case (k == 2 || k == 4) && base.IsAbs() && base.Opaque == "":
			rel := pick(c, []string{"canon-rel.json", "c/rel2.json", "../rel3.json"}) + fmt.Sprint(i)
			nb := base.ResolveReference(mustParse(rel))
			if !used[nb.String()] {
				used[nb.String()] = true
				root.IDText = rel
				base = nb
				d.Canon = nb.String()
				d.RelID = true
			}
		}
		root.Base = base
		d.Root = root
		u.addNode(d, root)
		// Further nodes.
		extra := c.W(5)
		for j := 0; j < extra; j++ {
			parent := d.Nodes[c.W(len(d.Nodes))]
			if parent.Depth >= 3 {
				parent = d.Root
			}
			n := &Node{Doc: d, Parent: parent, Depth: parent.Depth + 1}
			// key unique among siblings
			for try := 0; try < 8; try++ {
				k := pick(c, keyPool)
				dup := false
				for _, s := range parent.Kids {
					if s.Key == k {
						dup = true
					}
				}
				if !dup {
					n.Key = k
					break
				}
			}
			if n.Key == "" {
				continue
			}
			n.Res = parent.Res
			n.Base = parent.Res.Base
			if c.W(3) == 0 {
				// embedded resource
				var id string
				if (c.W(2) == 0 || o.Relocatable) && n.Base.IsAbs() && n.Base.Opaque == "" {
					id = pick(c, relIDPool)
				} else {
					id = pick(c, absIDPool)
				}
				nb := n.Base.ResolveReference(mustParse(id))
				if nb.IsAbs() && nb.Fragment == "" && !used[nb.String()] {
					used[nb.String()] = true
					n.IsRes = true
					n.IDText = id
					n.Base = nb
					n.Res = n
				}
			}
			parent.Kids = append(parent.Kids, n)
			u.addNode(d, n)
		}
		// Leaves.
		for j := c.W(3); j > 0; j-- {
			var parents []*Node
			for _, n := range d.Nodes {
				if !n.Leaf && n.Depth < 3 {
					parents = append(parents, n)
				}
			}
			if len(parents) == 0 {
				parents = []*Node{d.Root}
			}
			parent := parents[c.W(len(parents))]
			n := &Node{Doc: d, Parent: parent, Depth: parent.Depth + 1, Leaf: true}
			n.Key = fmt.Sprintf("leaf%d", j)
			n.Res = parent.Res
			n.Base = parent.Res.Base
			if c.W(4) == 0 {
				id := pick(c, absIDPool)
				if (c.W(2) == 0 || o.Relocatable) && n.Base.IsAbs() && n.Base.Opaque == "" {
					id = "l-" + pick(c, relIDPool)
				}
				nb := n.Base.ResolveReference(mustParse(id))
				if nb.IsAbs() && nb.Fragment == "" && !used[nb.String()] {
					used[nb.String()] = true
					n.IsRes, n.IDText, n.Base, n.Res = true, id, nb, n
				}
			}
			parent.Kids = append(parent.Kids, n)
			u.addNode(d, n)
		}
		if u.Draft7 && i > 0 && c.W(2) == 0 {
			d.NoDraft = true
		}
	}
	// Anchors: unique within their resource.
	for _, n := range u.Nodes {
		if c.W(3) != 0 {
			continue
		}
		if u.Draft7 && n.IsRes {
			continue // draft-07: "$id" is either a base or a plain-name fragment, not both
		}
		if n.Alias {
			continue // nothing but "$ref"
		}
		a := pick(c, anchorPool)
		dup := false
		for _, o := range u.Nodes {
			if o.Res == n.Res && o.Anchor == a {
				dup = true
			}
		}
		if !dup {
			n.Anchor = a
		}
	}
	// Edges.
	var leaves []*Node
	for _, n := range u.Nodes {
		if n.Leaf {
			leaves = append(leaves, n)
		}
	}
	// Aliases: {"$ref": ...} subschemas under a document root's $defs, each leading to a leaf or
	// to an earlier alias, possibly in another document (reference-to-reference chains).
	if len(leaves) > 0 {
		for j := c.W(3); j > 0; j-- {
			d := u.Docs[c.W(len(u.Docs))]
			if d.Root.Leaf {
				continue
			}
			a := &Node{Doc: d, Parent: d.Root, Depth: 1, Leaf: true, Alias: true}
			a.Key = fmt.Sprintf("alias%d", j)
			a.Res = d.Root.Res
			a.Base = d.Root.Res.Base
			for try := 0; try < 4 && a.InPlace == nil; try++ {
				if e := u.makeEdge(c, a, 2, leaves[c.W(len(leaves))]); e != nil {
					a.InPlace = e
				}
			}
			if a.InPlace == nil {
				continue
			}
			d.Root.Kids = append(d.Root.Kids, a)
			u.addNode(d, a)
			leaves = append(leaves, a)
		}
	}
	for _, n := range u.Nodes {
		if n.Leaf {
			continue
		}
		for slot := 0; slot < 2; slot++ {
			if c.W(4) == 0 {
				continue
			}
			for try := 0; try < 4 && n.Next[slot] == nil; try++ {
				var t *Node
				if c.W(2) == 0 {
					t = n.Doc.Nodes[c.W(len(n.Doc.Nodes))]
				} else {
					t = u.Nodes[c.W(len(u.Nodes))]
				}
				if t.Leaf {
					continue
				}
				if e := u.makeEdge(c, n, slot, t); e != nil {
					n.Next[slot] = e
				}
			}
		}
		if len(leaves) > 0 && c.W(3) == 0 {
			for try := 0; try < 3 && n.InPlace == nil; try++ {
				if e := u.makeEdge(c, n, 2, leaves[c.W(len(leaves))]); e != nil {
					n.InPlace = e
				}
			}
		}
	}
	if u.Draft7 {
		for _, n := range u.Nodes {
			for _, e := range []*Edge{n.Next[0], n.Next[1]} {
				if e != nil && c.W(3) == 0 {
					e.SiblingID = pick(c, []string{"#foo", "#bar", "#baz", "#nosuch", "ignored.json", "http://ignored.test/x.json"})
				}
			}
		}
	}
	if root := u.Docs[0].Root; o.RootInPlace && root.InPlace == nil {
		var remote []*Node
		for _, l := range leaves {
			if l.Doc != root.Doc {
				remote = append(remote, l)
			}
		}
		for try := 0; try < 4 && len(remote) > 0 && root.InPlace == nil; try++ {
			if e := u.makeEdge(c, root, 2, remote[c.W(len(remote))]); e != nil {
				root.InPlace = e
			}
		}
	}
	// A document whose root $id is relative can be named by its canonical URI
	// only once it has been loaded through its retrieval URI. Within one hop
	// the m-slot is resolved before the n-slot (children are traversed in sorted
	// key order), so: m by retrieval URI, n by canonical URI.
	for _, n := range u.Nodes {
		m, nn := n.Next[1], n.Next[0]
		if m == nil || nn == nil || m.To == nil || nn.To == nil || m.To.Doc == n.Doc {
			continue
		}
		d := m.To.Doc
		if !d.RelID || nn.To.Res != d.Root || m.To.Res != d.Root || !strings.Contains(m.Form, "retrieval-alias") {
			continue
		}
		if c.W(2) == 0 {
			frag := ""
			if i := strings.IndexByte(nn.Text, '#'); i >= 0 {
				frag = nn.Text[i:]
			}
			nn.Text = d.Canon + frag
			nn.Form = "abs+canonical-id-after-retrieval:" + nn.Form[strings.LastIndexByte(nn.Form, ':')+1:]
		}
	}
	if o.Dangling {
		u.plantDangling(c)
	}
	if o.Defaults && !o.Dangling {
		u.HasDefaults = true
		for _, n := range u.Nodes {
			if n.Leaf || c.W(3) != 0 {
				continue
			}
			n.Default = map[string]any{"v": n.Marker}
			for s, e := range n.Next {
				if e != nil && e.To != nil && c.W(2) == 0 {
					n.Default = map[string]any{slotName[s]: map[string]any{"v": e.To.Marker}}
					if e2 := e.To.Next[s]; e2 != nil && e2.To != nil && c.W(2) == 0 {
						n.Default = map[string]any{slotName[s]: map[string]any{slotName[s]: map[string]any{"v": e2.To.Marker}}}
					}
				}
			}
		}
		if o.BadDefault {
			n := u.Docs[0].Nodes[c.W(len(u.Docs[0].Nodes))]
			if !n.Leaf {
				n.Default = map[string]any{"v": "not-the-marker"}
				u.BadDefaultAt = n
			}
		}
	}
	u.render()
	return u
}

func (u *Universe) addNode(d *Doc, n *Node) {
	n.ID = len(u.Nodes)
	n.Marker = fmt.Sprintf("M%d_%d", d.Index, len(d.Nodes))
	d.Nodes = append(d.Nodes, n)
	u.Nodes = append(u.Nodes, n)
}

func mustParse(s string) *url.URL {
	x, err := url.Parse(s)
	if err != nil {
		panic(err)
	}
	return x
}

func subsetShuffled[T any](c *Ctx, xs []T, k int) []T {
	idx := make([]int, len(xs))
	for i := range idx {
		idx[i] = i
	}
	out := make([]T, 0, k)
	for i := 0; i < k && i < len(xs); i++ {
		j := i + c.W(len(xs)-i)
		idx[i], idx[j] = idx[j], idx[i]
		out = append(out, xs[idx[i]])
	}
	return out
}

// ptrWithin returns the JSON Pointer from the resource root of t to t.
func (u *Universe) ptrWithin(t *Node) string {
	var segs []string
	for n := t; n != t.Res; n = n.Parent {
		segs = append([]string{u.defsKey(), n.Key}, segs...)
	}
	var b strings.Builder
	for _, s := range segs {
		b.WriteByte('/')
		b.WriteString(strings.NewReplacer("~", "~0", "/", "~1").Replace(s))
	}
	return b.String()
}

// fragEscape percent-encodes a fragment as it must appear inside a URI reference.
func fragEscape(f string) string {
	return (&url.URL{Fragment: f}).EscapedFragment()
}

// uriForms returns the ways of writing the absolute URI target relative to base.
func uriForms(base, target *url.URL) map[string]string {
	forms := map[string]string{"abs": target.String()}
	if target.Opaque == "" && target.Host != "" && len(target.Path) > 1 {
		// absolute references with dot segments, which RFC 3986 removes
		forms["abs-dotdot"] = target.Scheme + "://" + target.Host + "/zz/.." + target.EscapedPath()
		forms["abs-dot"] = target.Scheme + "://" + target.Host + "/." + target.EscapedPath()
	}
	if !base.IsAbs() || base.Opaque != "" || target.Opaque != "" {
		return forms
	}
	if base.Scheme == target.Scheme {
		forms["netpath"] = "//" + target.Host + target.EscapedPath()
		if base.Host == target.Host {
			forms["abspath"] = target.EscapedPath()
			// path-relative
			bdir := strings.Split(strings.TrimPrefix(base.Path, "/"), "/")
			bdir = bdir[:len(bdir)-1]
			tp := strings.Split(strings.TrimPrefix(target.Path, "/"), "/")
			i := 0
			for i < len(bdir) && i < len(tp)-1 && bdir[i] == tp[i] {
				i++
			}
			rel := strings.Repeat("../", len(bdir)-i) + strings.Join(tp[i:], "/")
			if rel != "" {
				forms["rel"] = rel
				if !strings.HasPrefix(rel, "../") {
					forms["dotrel"] = "./" + rel
				}
			}
		}
	}
	return forms
}

// makeEdge builds a reference from h to t in a randomly chosen valid form, or
// returns nil if the specification gives no defined way to write it.
func (u *Universe) makeEdge(c *Ctx, h *Node, slot int, t *Node) *Edge {
	type cand struct{ text, form string }
	var cands []cand
	// Fragment part: how t is addressed inside its resource.
	frags := map[string]string{}
	if t == t.Res {
		frags["root"] = ""
	} else {
		frags["ptr"] = u.ptrWithin(t)
	}
	if t.Anchor != "" {
		frags["anchor"] = t.Anchor
	}
	sameRes := t.Res == h.Res
	sameDoc := t.Doc == h.Doc
	if !sameDoc && t.Res != t.Doc.Root {
		return nil // cross-document references address the document's root resource only
	}
	for fk, f := range frags {
		fragText := ""
		if f != "" {
			fragText = "#" + fragEscape(f)
		}
		if sameRes {
			if f == "" {
				cands = append(cands, cand{"#", "frag-only:" + fk})
			} else {
				cands = append(cands, cand{fragText, "frag-only:" + fk})
			}
		}
		// URI-qualified forms.
		var targets []*url.URL
		if t.Res.Base.IsAbs() && (sameDoc || !t.Doc.RelID) {
			targets = append(targets, t.Res.Base)
		}
		if t.Res == t.Doc.Root && t.Doc.URI != t.Doc.Canon && !(t.Doc.Index == 0 && u.BaseURI == "") {
			targets = append(targets, mustParse(t.Doc.URI)) // retrieval-URI alias of the canonical id
		}
		for _, tu := range targets {
			for form, text := range uriForms(h.Res.Base, tu) {
				tag := form
				if tu.String() == t.Doc.URI && t.Doc.URI != t.Doc.Canon {
					tag += "+retrieval-alias"
				} else if t.Res == t.Doc.Root && t.Doc.URI != t.Doc.Canon {
					tag += "+canonical-id"
				}
				cands = append(cands, cand{text + fragText, tag + ":" + fk})
			}
		}
	}
	// Keep only candidates that net/url (RFC 3986 reference resolution, trusted)
	// resolves to the intended resource and fragment.
	var ok []cand
	for _, cd := range cands {
		if u.Reloc && (strings.HasPrefix(cd.form, "abs:") || strings.HasPrefix(cd.form, "abs+") || strings.HasPrefix(cd.form, "abs-") || strings.HasPrefix(cd.form, "netpath")) {
			continue // would pin the reference to one host
		}
		ref, err := url.Parse(cd.text)
		if err != nil {
			continue
		}
		abs := h.Res.Base.ResolveReference(ref)
		frag := abs.Fragment
		abs.Fragment = ""
		abs.RawFragment = ""
		want := t.Res.Base.String()
		if abs.String() != want && !(t.Res == t.Doc.Root && abs.String() == t.Doc.URI && !(t.Doc.Index == 0 && u.BaseURI == "")) {
			continue
		}
		wantFrag := ""
		switch {
		case strings.HasSuffix(cd.form, ":ptr"):
			wantFrag = u.ptrWithin(t)
		case strings.HasSuffix(cd.form, ":anchor"):
			wantFrag = t.Anchor
		}
		if frag != wantFrag {
			continue
		}
		ok = append(ok, cd)
	}
	if len(ok) == 0 {
		return nil
	}
	sortCands := func() {
		// deterministic order independent of Go map iteration in this function
		for i := 1; i < len(ok); i++ {
			for j := i; j > 0 && (ok[j].form+ok[j].text) < (ok[j-1].form+ok[j-1].text); j-- {
				ok[j], ok[j-1] = ok[j-1], ok[j]
			}
		}
	}
	sortCands()
	ch := ok[c.W(len(ok))]
	return &Edge{From: h, Slot: slot, To: t, Text: ch.text, Form: ch.form}
}

// Closure returns the indices of the documents that must be loaded when
// Docs[0] is resolved: references are resolved eagerly for every subschema of
// every loaded document.
func (u *Universe) Closure() map[int]bool {
	loaded := map[int]bool{0: true}
	work := []int{0}
	for len(work) > 0 {
		d := u.Docs[work[0]]
		work = work[1:]
		for _, n := range d.Nodes {
			for _, e := range []*Edge{n.Next[0], n.Next[1], n.InPlace} {
				if e == nil || e.To == nil {
					continue
				}
				if t := e.To.Doc.Index; !loaded[t] {
					loaded[t] = true
					work = append(work, t)
				}
			}
		}
	}
	return loaded
}

// plantDangling replaces one reference in a must-load document by one that
// designates nothing.
func (u *Universe) plantDangling(c *Ctx) {
	cl := u.Closure()
	var hosts []*Node
	for _, n := range u.Nodes {
		if cl[n.Doc.Index] && !n.Leaf {
			hosts = append(hosts, n)
		}
	}
	h := hosts[c.W(len(hosts))]
	slot := c.W(2)
	e := &Edge{From: h, Slot: slot}
	kinds := []string{"missing-anchor", "missing-pointer", "non-schema-pointer", "index-out-of-range", "absent-keyword"}
	if h.Res.Base.IsAbs() && h.Res.Base.Opaque == "" {
		kinds = append(kinds, "absent-document", "missing-anchor-remote")
	}
	e.Dangle = pick(c, kinds)
	switch e.Dangle {
	case "missing-anchor":
		e.Text = "#nosuch"
	case "missing-pointer":
		e.Text = "#/" + u.defsKey() + "/nosuch"
	case "non-schema-pointer":
		e.Text = "#/properties/v/const"
	case "index-out-of-range":
		e.Text = "#/anyOf/0"
	case "absent-keyword":
		// a schema-valued keyword that the resource does not have
		e.Text = "#/" + pick(c, []string{"not", "if", "then", "additionalProperties", "contains", "propertyNames", "unevaluatedItems", "contentSchema"})
	case "absent-document":
		e.Text = "http://nowhere.test/absent.json"
	case "missing-anchor-remote":
		// an existing other document (if any), an anchor it does not have
		t := u.Docs[c.W(len(u.Docs))]
		e.Text = t.URI + "#nosuch"
		if t.Index == 0 && u.BaseURI == "" {
			e.Text = "#nosuch"
		}
	}
	e.Form = "dangling:" + e.Dangle
	h.Next[slot] = e
	u.Dangle = e
}

func (u *Universe) renderNode(n *Node) map[string]any {
	if n.Alias {
		return map[string]any{"$ref": n.InPlace.Text}
	}
	o := map[string]any{}
	if n.IDText != "" {
		o["$id"] = n.IDText
	}
	if n.Anchor != "" {
		if u.Draft7 {
			o["$id"] = "#" + n.Anchor
		} else {
			o["$anchor"] = n.Anchor
		}
	}
	props := map[string]any{"v": map[string]any{"const": n.Marker}}
	if n.Leaf {
		props = map[string]any{n.leafKey(): false}
	}
	for s, e := range n.Next {
		if e != nil {
			ro := map[string]any{"$ref": e.Text}
			if e.SiblingID != "" {
				ro["$id"] = e.SiblingID
			}
			props[slotName[s]] = ro
		}
	}
	o["properties"] = props
	if n.Default != nil {
		o["default"] = n.Default
	}
	if n.InPlace != nil {
		if !u.Draft7 && n.ID%2 == 0 {
			o["$ref"] = n.InPlace.Text // 2020-12: $ref next to other keywords
		} else {
			o["allOf"] = []any{map[string]any{"$ref": n.InPlace.Text}}
		}
	}
	if len(n.Kids) > 0 {
		defs := map[string]any{}
		for _, k := range n.Kids {
			defs[k.Key] = u.renderNode(k)
		}
		o[u.defsKey()] = defs
	}
	return o
}

func (n *Node) leafKey() string { return fmt.Sprintf("f%d", n.ID) }

func (u *Universe) render() {
	for _, d := range u.Docs {
		d.Body = u.renderNode(d.Root)
		if u.Draft7 && !d.NoDraft {
			d.Body["$schema"] = "http://json-schema.org/draft-07/schema#"
		}
		d.Text = JSON(d.Body)
	}
}

// Describe renders the universe for samples and replay files.
func (u *Universe) Describe() map[string]any {
	docs := []any{}
	for _, d := range u.Docs {
		var body any = json.RawMessage(d.Text)
		if !json.Valid([]byte(d.Text)) {
			body = "(not JSON) " + d.Text
		}
		docs = append(docs, map[string]any{"uri": d.URI, "canonical": d.Canon, "doc": body})
	}
	return map[string]any{"base_uri": u.BaseURI, "draft7": u.Draft7, "documents": docs}
}

// ---------------------------------------------------------------------------
// The simulated Loader

// FaultPlan says how the simulated loader misbehaves.
type FaultPlan struct {
	FailDocs map[int]bool // persistent: every request for these documents errs
	FailCall int          // transient: the k-th call (1-based) errs; 0 = none
	// Partial: the failing calls return the error TOGETHER WITH a non-nil schema (what
	// `s := new(Schema); err := json.Unmarshal(data, s); return s, err` does on a short read):
	// 1 = an empty schema, 2 = the whole document. The error still is the answer.
	Partial int
	Special map[int]string
	// Special behaviours per call index (1-based): "nilnil", "self", "wrong",
	// "shared" (the same *Schema value as an earlier call for that document).
}

// LoaderLog records the requests of one Resolve call.
type LoaderLog struct {
	URIs  []string
	Docs  []int // document served (or -1)
	Fired []string
}

// ErrInjected is the error returned for injected loader failures.
var ErrInjected = errors.New("simulated loader failure")

// LoaderFor returns a Loader over the universe that follows plan and records
// its calls in log. Every call returns a freshly unmarshaled document
// (Resolve writes to what the loader returns).
func (u *Universe) LoaderFor(c *Ctx, plan *FaultPlan, log *LoaderLog) jsonschema.Loader {
	shared := map[int]*jsonschema.Schema{}
	return func(uri *url.URL) (*jsonschema.Schema, error) {
		s := uri.String()
		call := len(log.URIs) + 1
		di := -1
		for _, d := range u.Docs {
			if d.URI == s || (d.Canon == s && !d.RelID) {
				di = d.Index
			}
		}
		log.URIs = append(log.URIs, s)
		log.Docs = append(log.Docs, di)
		if plan != nil {
			if plan.FailCall == call || (di >= 0 && plan.FailDocs[di]) {
				kind := "persistent-error"
				if plan.FailCall == call {
					kind = "transient-error"
				}
				log.Fired = append(log.Fired, kind)
				switch {
				case plan.Partial == 1:
					log.Fired = append(log.Fired, "error-with-empty-schema")
					return &jsonschema.Schema{}, ErrInjected
				case plan.Partial == 2 && di >= 0:
					log.Fired = append(log.Fired, "error-with-document")
					var sch jsonschema.Schema
					json.Unmarshal([]byte(u.Docs[di].Text), &sch)
					return &sch, ErrInjected
				}
				return nil, ErrInjected
			}
			switch plan.Special[call] {
			case "nilnil":
				log.Fired = append(log.Fired, "nil-nil")
				return nil, nil
			case "self":
				log.Fired = append(log.Fired, "self")
				di = 0
			case "same-id":
				// a different document that declares the $id of the root document
				if c0 := u.Docs[0].Canon; u.Docs[0].Root.Base.IsAbs() {
					log.Fired = append(log.Fired, "same-id-as-root")
					var sch jsonschema.Schema
					json.Unmarshal([]byte(fmt.Sprintf(`{"$id":%q,"properties":{"f0":false}}`, c0)), &sch)
					return &sch, nil
				}
			case "wrong":
				log.Fired = append(log.Fired, "wrong-document")
				var sch jsonschema.Schema
				json.Unmarshal([]byte(`{"title":"some other document"}`), &sch)
				return &sch, nil
			case "shared":
				if di >= 0 {
					if p := shared[di]; p != nil {
						log.Fired = append(log.Fired, "shared-pointer")
						return p, nil
					}
				}
			}
		}
		if di < 0 {
			return nil, fmt.Errorf("simulated store: no document at %s", s)
		}
		var sch jsonschema.Schema
		if err := json.Unmarshal([]byte(u.Docs[di].Text), &sch); err != nil {
			return nil, err
		}
		if plan != nil {
			switch plan.Special[call] {
			case "cyclic":
				// the right document, but as a Go value that is not a tree: a subschema points back at the document root
				log.Fired = append(log.Fired, "cyclic-graph")
				if sch.Defs == nil {
					sch.Defs = map[string]*jsonschema.Schema{}
				}
				sch.Defs["zz-back-to-root"] = &jsonschema.Schema{Not: &sch}
			case "reentrant":
				// a Loader that vets what it hands out: it resolves the document itself (with a plain
				// loader of its own) before returning it - Resolve re-entered from inside Resolve
				log.Fired = append(log.Fired, "reentrant-loader")
				sch.Resolve(&jsonschema.ResolveOptions{BaseURI: s, Loader: u.LoaderFor(c, nil, &LoaderLog{})})
			case "dag":
				// ... or a heavily shared one: 40 levels, both children of every level the same pointer
				log.Fired = append(log.Fired, "shared-dag")
				n := &jsonschema.Schema{Title: "leaf"}
				for i := 0; i < 40; i++ {
					n = &jsonschema.Schema{AllOf: []*jsonschema.Schema{n, n}}
				}
				if sch.Defs == nil {
					sch.Defs = map[string]*jsonschema.Schema{}
				}
				sch.Defs["zz-dag"] = n
			}
		}
		shared[di] = &sch
		return &sch, nil
	}
}

// Loader is LoaderFor with a throw-away log.
func (u *Universe) Loader(c *Ctx, plan *FaultPlan) jsonschema.Loader {
	return u.LoaderFor(c, plan, &LoaderLog{})
}

// ---------------------------------------------------------------------------
// Probes (the reach oracle's test instances)

// Probe is a path from the root hop and the marker the specification designates.
type Probe struct {
	Path   []int
	Target *Node
}

// Probes returns shortest paths covering every node and edge reachable from
// the root hop, plus a few longer walks (through cycles).
func (u *Universe) Probes(c *Ctx, extra int) []Probe {
	root := u.Docs[0].Root
	type item struct {
		n    *Node
		path []int
	}
	seenEdge := map[*Edge]bool{}
	seenNode := map[*Node]bool{root: true}
	out := []Probe{{nil, root}}
	q := []item{{root, nil}}
	for len(q) > 0 && len(out) < 64 {
		it := q[0]
		q = q[1:]
		for s, e := range it.n.Next {
			if e == nil || e.To == nil || seenEdge[e] {
				continue
			}
			seenEdge[e] = true
			p := append(append([]int(nil), it.path...), s)
			out = append(out, Probe{p, e.To})
			if !seenNode[e.To] && len(p) < 8 {
				seenNode[e.To] = true
				q = append(q, item{e.To, p})
			}
		}
	}
	for i := 0; i < extra; i++ {
		n := root
		var p []int
		steps := 2 + c.W(6)
		for j := 0; j < steps; j++ {
			s := c.W(2)
			e := n.Next[s]
			if e == nil || e.To == nil {
				s = 1 - s
				e = n.Next[s]
			}
			if e == nil || e.To == nil {
				break
			}
			p = append(p, s)
			n = e.To
		}
		out = append(out, Probe{p, n})
	}
	return out
}

// InPlaceProbe checks one in-place reference: at the location reached by Path the
// leaf Applied must apply and the leaf Other must not.
type InPlaceProbe struct {
	Path    []int
	Holder  *Node
	Applied *Node
	Other   string // key of a leaf that does not apply there
}

// InPlaceProbes returns a probe for every reachable hop that has an in-place reference.
func (u *Universe) InPlaceProbes(probes []Probe) []InPlaceProbe {
	var out []InPlaceProbe
	seen := map[*Node]bool{}
	for _, p := range probes {
		h := p.Target
		if h.InPlace == nil || h.InPlace.To == nil || seen[h] {
			continue
		}
		seen[h] = true
		applied := h.InPlace.To
		for applied.Alias {
			applied = applied.InPlace.To
		}
		other := "f99999"
		for _, n := range u.Nodes {
			if n.Leaf && !n.Alias && n != applied {
				other = n.leafKey()
				break
			}
		}
		out = append(out, InPlaceProbe{Path: p.Path, Holder: h, Applied: applied, Other: other})
	}
	return out
}

// Instance builds the instance that carries key at the probed location.
func (p InPlaceProbe) Instance(key string) any {
	var v any = map[string]any{key: 1.0}
	for i := len(p.Path) - 1; i >= 0; i-- {
		v = map[string]any{slotName[p.Path[i]]: v}
	}
	return v
}

// Instance builds the probe instance carrying marker m.
func (p Probe) Instance(m string) any {
	var v any = map[string]any{"v": m}
	for i := len(p.Path) - 1; i >= 0; i-- {
		v = map[string]any{slotName[p.Path[i]]: v}
	}
	return v
}

func (p Probe) String() string {
	var b strings.Builder
	for _, s := range p.Path {
		b.WriteString(slotName[s])
	}
	return fmt.Sprintf("/%s->%s", b.String(), p.Target.Marker)
}
