// Package simrt is the simulation runtime that is linked into the instrumented
// copy of the jsonschema package (see ../DESIGN.md §3).
//
// Everything the simulator decides goes through Choose on one of a few
// decision streams. A stream is either seeded (splitmix64 from the run seed) or
// replayed from a recorded list of values; a replayed stream that runs out
// yields 0, and 0 is by construction always the simplest choice (canonical map
// order, no fault, no pre-emption, same goroutine continues).
//
// All state here is plain arrays touched only from //go:norace functions: the
// virtual goroutines of the scheduler (sched.go) deliberately have no
// happens-before edges between them, so that the race detector still sees the
// library's own unsynchronised accesses; the simulator's bookkeeping must not
// show up in its reports.
package simrt

// Decision streams.
const (
	SWorld = iota // generated worlds, operations, instances, swarm parameters
	SOrder        // map iteration order at every controlled site visit
	SHash         // hash seeds and collision masks
	SSched        // which goroutine runs next, pre-emption gaps
	SFault        // loader faults, memo-cache misses
	NStreams
)

// StreamNames names the streams in replay files.
var StreamNames = [NStreams]string{"world", "order", "hash", "sched", "fault"}

const maxRec = 1 << 16

// Rec is one recorded decision. N==0 marks a raw 64-bit draw.
type Rec struct {
	Site uint32
	N    uint32
	V    uint64
}

type stream struct {
	rng       uint64
	replaying bool
	replay    []uint64
	cur       int
	nrec      int
	overflow  bool
	rec       [maxRec]Rec
}

var streams [NStreams]stream

func mix(a, b uint64) uint64 {
	z := a + 0x9E3779B97F4A7C15*(b+1)
	z = (z ^ (z >> 30)) * 0xBF58476D1CE4E5B9
	z = (z ^ (z >> 27)) * 0x94D049BB133111EB
	return z ^ (z >> 31)
}

// Mix is the seed-derivation function (exported for the harness).
func Mix(a, b uint64) uint64 { return mix(a, b) }

// Reset puts every stream into seeded mode, stream i seeded with mix(seed, i),
// and clears the recorded trace, statistics and per-run switches.
//
//go:norace
func Reset(seed uint64) {
	for i := range streams {
		s := &streams[i]
		s.rng = mix(seed, uint64(i))
		s.replaying = false
		s.replay = nil
		s.cur = 0
		s.nrec = 0
		s.overflow = false
	}
	resetRunState()
}

// SetStreamSeed reseeds one stream (used to run the same world under another
// schedule). The recorded trace of that stream continues; in replay mode the
// call does nothing.
//
//go:norace
func SetStreamSeed(st int, seed uint64) {
	s := &streams[st]
	if s.replaying {
		return // a replayed stream keeps supplying the recorded values
	}
	s.rng = mix(seed, uint64(st))
}

// SetReplay puts one stream into replay mode.
//
//go:norace
func SetReplay(st int, vals []uint64) {
	s := &streams[st]
	s.replaying = true
	s.replay = vals
	s.cur = 0
}

//go:norace
func draw(st int) uint64 {
	s := &streams[st]
	if s.replaying {
		var v uint64
		if s.cur < len(s.replay) {
			v = s.replay[s.cur]
		}
		s.cur++
		return v
	}
	s.cur++
	s.rng += 0x9E3779B97F4A7C15
	z := s.rng
	z = (z ^ (z >> 30)) * 0xBF58476D1CE4E5B9
	z = (z ^ (z >> 27)) * 0x94D049BB133111EB
	return z ^ (z >> 31)
}

//go:norace
func record(st int, site uint32, n uint32, v uint64) {
	s := &streams[st]
	if s.nrec >= maxRec {
		s.overflow = true
		return
	}
	s.rec[s.nrec] = Rec{site, n, v}
	s.nrec++
}

// Choose returns a value in [0, n). n <= 1 consumes nothing.
//
//go:norace
func Choose(st int, site uint32, n int) int {
	if n <= 1 {
		return 0
	}
	v := draw(st) % uint64(n)
	record(st, site, uint32(n), v)
	return int(v)
}

// ChooseU64 returns a raw 64-bit value.
//
//go:norace
func ChooseU64(st int, site uint32) uint64 {
	v := draw(st)
	record(st, site, 0, v)
	return v
}

// Chance reports an event of probability num/den. Value 0 (the replay default)
// is "no event".
//
//go:norace
func Chance(st int, site uint32, num, den int) bool {
	if num <= 0 {
		return false
	}
	return Choose(st, site, den) >= den-num
}

// Trace returns a copy of the decisions recorded on a stream since Reset, and
// whether the record overflowed (then the run is replayable by seed only).
//
//go:norace
func Trace(st int) ([]Rec, bool) {
	s := &streams[st]
	out := make([]Rec, s.nrec)
	copy(out, s.rec[:s.nrec])
	return out, s.overflow
}

// Draws reports how many values a stream has produced.
//
//go:norace
func Draws(st int) int { return streams[st].cur }
