module verif.local/simrt

go 1.23.0
