package simrt

import (
	"sync"
	"syscall"
	"unsafe"
)

// The scheduler runs k virtual goroutines — real goroutines — one at a time.
// The token is handed over with raw read/write system calls on private pipes:
// that orders the goroutines physically (so the execution is serial and
// repeatable) without creating a happens-before edge the race detector knows
// about, so conflicting unsynchronised accesses made by the library on behalf of
// two virtual goroutines are still reported as races.

const maxVG = 16

// BudgetExceeded is the panic value raised by Yield when one operation has
// executed more steps than its budget (a hang, deterministically detected).
type BudgetExceeded struct{ Steps int64 }

type vgState struct {
	rfd, wfd int
	steps    int64
	live     bool
	buf      [8]byte
}

var gapTable = [...]int64{1, 2, 3, 5, 8, 13, 21, 34, 55, 89, 144, 233, 377, 610, 987, 1597, 2584, 4181}

var (
	schedActive    bool
	vgs            [maxVG]vgState
	nvg            int
	cur            int
	gap            int64
	stepBudget     int64
	opSteps        int64
	mainR, mainW   int
	mainBuf        [8]byte
	preemptDensity int
	hotNum, hotDen int // probability of a pre-emption at a synchronisation point (YieldHot)
)

//go:norace
func resetSched() {
	schedActive = false
	gap = 0
	stepBudget = 0
	opSteps = 0
	preemptDensity = 0
	hotNum, hotDen = 0, 1
}

// SetStepBudget sets the number of yields one operation may execute (0 = no limit).
//
//go:norace
func SetStepBudget(n int64) { stepBudget = n }

// SetPreemptDensity: 0 = switches at operation boundaries only; 1 = a
// pre-emption point is planted in about a quarter of the stretches; 2 = in
// every stretch; 3 = in every stretch and at most 89 yields away.
//
//go:norace
func SetPreemptDensity(d int) { preemptDensity = d }

// Yield is inserted before every statement of the instrumented library. It is
// the step clock and the only place where a pre-emption can happen.
//
//go:norace
func Yield(site uint32) {
	stats.Steps++
	if stepBudget > 0 {
		p := &opSteps
		if schedActive {
			p = &vgs[cur].steps
		}
		*p++
		if *p > stepBudget {
			n := *p
			*p = -1 << 40 // let deferred library code run without tripping again
			panic(BudgetExceeded{n})
		}
	}
	if gap > 0 {
		gap--
		if gap == 0 && schedActive {
			next := pick(site)
			if next != cur {
				stats.Preemptions++
			}
			handoff(next, site)
		}
	}
}

// SetHotPreempt sets the probability num/den with which the scheduler pre-empts at a
// synchronisation point: a statement that touches package-level state of the library or calls
// into sync or sync/atomic (the instrumenter marks them with YieldHot before and after). The
// windows that lazy initialisation, double-checked locking and compare-and-swap protocols leave
// open are a few statements long and start at exactly such points; uniformly placed pre-emption
// points find them with a probability that falls with the length of the operation.
//
//go:norace
func SetHotPreempt(num, den int) {
	if den <= 0 {
		num, den = 0, 1
	}
	hotNum, hotDen = num, den
}

// YieldHot is Yield at a synchronisation point.
//
//go:norace
func YieldHot(site uint32) {
	Yield(site)
	if schedActive {
		stats.HotPoints++
		if hotNum > 0 && Chance(SSched, site, hotNum, hotDen) {
			next := pick(site)
			if next != cur {
				stats.Preemptions++
				stats.HotPreemptions++
			}
			handoff(next, site)
		}
	}
}

// BeginOp marks the start of an operation: the step count of the current
// (virtual) goroutine restarts, and under the scheduler another goroutine may be
// chosen to run first.
//
//go:norace
func BeginOp(site uint32) {
	if !schedActive {
		opSteps = 0
		return
	}
	vgs[cur].steps = 0
	handoff(pick(site), site)
	vgs[cur].steps = 0
}

//go:norace
func drawGap(site uint32) {
	gap = 0
	switch preemptDensity {
	case 0:
		return
	case 1:
		if !Chance(SSched, site, 1, 4) {
			return
		}
	}
	n := len(gapTable)
	if preemptDensity >= 3 {
		n = 11 // short stretches only (<= 89 yields): many switches inside every operation
	}
	g := Choose(SSched, site, n+1)
	if g > 0 {
		gap = gapTable[g-1]
	}
}

// pick chooses who runs next; 0 means the current goroutine continues.
//
//go:norace
func pick(site uint32) int {
	var cand [maxVG]int
	n := 0
	if vgs[cur].live {
		cand[0] = cur
		n = 1
	}
	for i := 0; i < nvg; i++ {
		if i != cur && vgs[i].live {
			cand[n] = i
			n++
		}
	}
	if n == 0 {
		return -1
	}
	return cand[Choose(SSched, site, n)]
}

//go:norace
func sysWrite(fd int, b *[8]byte) {
	for {
		_, _, e := syscall.Syscall(syscall.SYS_WRITE, uintptr(fd), uintptr(unsafe.Pointer(b)), 1)
		if e == 0 {
			return
		}
		if e != syscall.EINTR && e != syscall.EAGAIN {
			panic("simrt: pipe write: " + e.Error())
		}
	}
}

//go:norace
func sysRead(fd int, b *[8]byte) {
	for {
		n, _, e := syscall.Syscall(syscall.SYS_READ, uintptr(fd), uintptr(unsafe.Pointer(b)), 1)
		if e == 0 && n == 1 {
			return
		}
		if e != 0 && e != syscall.EINTR && e != syscall.EAGAIN {
			panic("simrt: pipe read: " + e.Error())
		}
	}
}

// handoff gives the token to next and parks the caller until it gets it back.
//
//go:norace
func handoff(next int, site uint32) {
	me := cur
	if next != me && next >= 0 {
		stats.Switches++
		stats.SchedHash = mix(stats.SchedHash, uint64(me)<<48|uint64(next)<<40|uint64(site))
		sysWrite(vgs[next].wfd, &vgs[me].buf)
		sysRead(vgs[me].rfd, &vgs[me].buf)
		cur = me
	}
	drawGap(site)
}

//go:norace
func waitToken(i int) {
	sysRead(vgs[i].rfd, &vgs[i].buf)
	cur = i
	drawGap(0)
}

//go:norace
func finish(i int) {
	vgs[i].live = false
	gap = 0
	next := pick(0)
	if next < 0 {
		sysWrite(mainW, &mainBuf)
		return
	}
	stats.Switches++
	stats.SchedHash = mix(stats.SchedHash, uint64(i)<<48|uint64(next)<<40|0xFFFFF)
	sysWrite(vgs[next].wfd, &vgs[i].buf)
}

//go:norace
func startSched(n int) {
	nvg = n
	for i := 0; i < n; i++ {
		vgs[i].live = true
		vgs[i].steps = 0
	}
	cur = 0
	schedActive = true
	first := Choose(SSched, 0, n)
	sysWrite(vgs[first].wfd, &mainBuf)
	sysRead(mainR, &mainBuf)
	schedActive = false
	gap = 0
}

// CurrentVG returns the index of the running virtual goroutine (0 outside RunConcurrent).
//
//go:norace
func CurrentVG() int {
	if !schedActive {
		return 0
	}
	return cur
}

// RunConcurrent runs the bodies as virtual goroutines under the seeded
// scheduler and returns when all have finished. Bodies must not panic.
func RunConcurrent(bodies []func()) {
	n := len(bodies)
	if n == 0 {
		return
	}
	if n > maxVG {
		panic("simrt: too many virtual goroutines")
	}
	var fds [2]int
	mk := func() (int, int) {
		if err := syscall.Pipe(fds[:]); err != nil {
			panic("simrt: pipe: " + err.Error())
		}
		return fds[0], fds[1]
	}
	mainR, mainW = mk()
	for i := 0; i < n; i++ {
		vgs[i].rfd, vgs[i].wfd = mk()
	}
	var wg sync.WaitGroup
	for i := range bodies {
		wg.Add(1)
		go func(i int) {
			defer wg.Done()
			waitToken(i)
			bodies[i]()
			finish(i)
		}(i)
	}
	startSched(n)
	wg.Wait()
	syscall.Close(mainR)
	syscall.Close(mainW)
	for i := 0; i < n; i++ {
		syscall.Close(vgs[i].rfd)
		syscall.Close(vgs[i].wfd)
	}
}

// ---------------------------------------------------------------------------
// T4: blocking primitives. A virtual goroutine that would block on a lock held
// by a parked goroutine must give the token away instead of blocking for real.

// Deadlock is the panic value raised when a lock can never be acquired.
type Deadlock struct{ Site uint32 }

//go:norace
func forceYield(site uint32) {
	stats.Steps++
	if !schedActive {
		panic(Deadlock{site})
	}
	p := &vgs[cur].steps
	*p++
	if stepBudget > 0 && *p > stepBudget {
		n := *p
		*p = -1 << 40
		panic(BudgetExceeded{n})
	}
	var cand [maxVG]int
	n := 0
	for i := 0; i < nvg; i++ {
		if i != cur && vgs[i].live {
			cand[n] = i
			n++
		}
	}
	if n == 0 {
		panic(Deadlock{site})
	}
	handoff(cand[Choose(SSched, site, n)], site)
}

// Lock replaces (*sync.Mutex).Lock.
func Lock(m *sync.Mutex, site uint32) {
	for !m.TryLock() {
		forceYield(site)
	}
}

// RWLock replaces (*sync.RWMutex).Lock.
func RWLock(m *sync.RWMutex, site uint32) {
	for !m.TryLock() {
		forceYield(site)
	}
}

// RWRLock replaces (*sync.RWMutex).RLock.
func RWRLock(m *sync.RWMutex, site uint32) {
	for !m.TryRLock() {
		forceYield(site)
	}
}

type onceState struct{ phase int } // 0 idle, 1 running, 2 done

var (
	onceMu     sync.Mutex
	onceStates = map[*sync.Once]*onceState{}
)

// OnceDo replaces (*sync.Once).Do: a second caller yields while the first is
// inside f instead of blocking on the Once's internal mutex.
func OnceDo(o *sync.Once, f func(), site uint32) {
	onceMu.Lock()
	st := onceStates[o]
	if st == nil {
		st = &onceState{}
		onceStates[o] = st
	}
	onceMu.Unlock()
	for {
		onceMu.Lock()
		ph := st.phase
		if ph == 0 {
			st.phase = 1
		}
		onceMu.Unlock()
		switch ph {
		case 0:
			defer func() {
				onceMu.Lock()
				st.phase = 2
				onceMu.Unlock()
			}()
			o.Do(f)
			return
		case 2:
			o.Do(f) // already done: returns at once, with the proper happens-before edge
			return
		}
		forceYield(site)
	}
}
