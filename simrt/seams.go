package simrt

import (
	"fmt"
	"hash/maphash"
	"iter"
	"reflect"
	"sort"
	"sync"
	"unsafe"
)

// ---------------------------------------------------------------------------
// Sites

// MaxSites bounds the number of instrumentation sites in one instrumented tree.
const MaxSites = 8192

var siteNames []string

// RegisterSites is called from the generated init function of the instrumented
// package. Site ids are indices into names.
func RegisterSites(names []string) { siteNames = names }

// SiteName returns the source position and construct of a site.
func SiteName(id uint32) string {
	if int(id) < len(siteNames) {
		return siteNames[id]
	}
	return fmt.Sprintf("site#%d", id)
}

// NumSites returns the number of registered sites.
func NumSites() int { return len(siteNames) }

// Instrumented reports whether an instrumented jsonschema is linked in.
func Instrumented() bool { return len(siteNames) > 0 }

// ---------------------------------------------------------------------------
// Per-run switches and statistics (plain arrays, norace access only).

// Order policies.
const (
	OrderSorted   = iota // canonical ascending order at every visit
	OrderReversed        // descending at every visit
	OrderPerVisit        // each visit draws: sorted, reversed, rotated, shuffled
	OrderShuffle         // every visit is a full shuffle
	OrderRotate          // every visit is a rotation (gc's order for one-bucket maps)
	NumOrderPolicies
)

// Stats are the counters of one run (or several, until ResetStats).
type Stats struct {
	Steps          int64 // yields executed: the simulated clock
	OrderVisits    int64 // controlled map-iteration visits
	OrderMulti     int64 // ... over a map with >= 2 entries
	OrderNoncanon  int64 // ... that were served in a non-canonical order
	Uncontrolled   int64 // visits at sites whose keys have no canonical order
	OrderHash      uint64
	SeedsDrawn     int64
	Sum64Calls     int64
	Sum64Masked    int64
	CacheLoads     int64
	CacheMissesInj int64
	Switches       int64 // scheduler hand-offs between different goroutines
	Preemptions    int64 // hand-offs that happened inside an operation
	HotPoints      int64 // synchronisation points passed while the scheduler was active
	HotPreemptions int64 // pre-emptions taken at a synchronisation point
	SchedHash      uint64
}

var (
	orderPolicy int
	hashMaskBit int = 64 // number of hash bits kept by Sum64
	missNum     int      // injected memo-miss probability missNum/missDen
	missDen     int = 1
	stats       Stats
	siteVisits  [MaxSites]uint32
	siteMulti   [MaxSites]uint32
	siteUnctl   [MaxSites]uint32
)

//go:norace
func resetRunState() {
	orderPolicy = OrderSorted
	hashMaskBit = 64
	missNum, missDen = 0, 1
	stats = Stats{}
	resetSched()
}

// SetOrderPolicy selects how controlled map iterations are ordered.
//
//go:norace
func SetOrderPolicy(p int) { orderPolicy = p }

// SetHashMask keeps only the low bits bits of every Sum64 result (64 = off).
//
//go:norace
func SetHashMask(bits int) { hashMaskBit = bits }

// SetCacheMiss makes Load on the named memo tables report a miss with
// probability num/den although the entry exists.
//
//go:norace
func SetCacheMiss(num, den int) { missNum, missDen = num, den }

// GetStats returns the counters accumulated since the last Reset/ResetStats.
//
//go:norace
func GetStats() Stats { return stats }

// ResetStats clears the counters but leaves streams and switches alone.
//
//go:norace
func ResetStats() { stats = Stats{} }

// SiteCounts returns visits / visits with >=2 entries / uncontrolled visits per
// site, accumulated over the life of the process.
//
//go:norace
func SiteCounts() (visits, multi, unctl []uint32) {
	n := len(siteNames)
	visits = make([]uint32, n)
	multi = make([]uint32, n)
	unctl = make([]uint32, n)
	for i := 0; i < n && i < MaxSites; i++ {
		visits[i], multi[i], unctl[i] = siteVisits[i], siteMulti[i], siteUnctl[i]
	}
	return
}

// ---------------------------------------------------------------------------
// T1: map iteration order

// perm fills idx (len n) with the order in which the canonically sorted keys
// are to be served at this visit.
//
//go:norace
func perm(idx []int, site uint32) {
	n := len(idx)
	for i := range idx {
		idx[i] = i
	}
	if int(site) < MaxSites {
		siteVisits[site]++
	}
	stats.OrderVisits++
	if n < 2 {
		return
	}
	if int(site) < MaxSites {
		siteMulti[site]++
	}
	stats.OrderMulti++
	mode := 0
	switch orderPolicy {
	case OrderSorted:
		mode = 0
	case OrderReversed:
		mode = 1
	case OrderPerVisit:
		mode = Choose(SOrder, site, 4)
	case OrderShuffle:
		mode = 3
	case OrderRotate:
		mode = 2
	}
	switch mode {
	case 1:
		for i, j := 0, n-1; i < j; i, j = i+1, j-1 {
			idx[i], idx[j] = idx[j], idx[i]
		}
	case 2:
		r := Choose(SOrder, site, n)
		for i := range idx {
			idx[i] = (i + r) % n
		}
	case 3:
		for i := n - 1; i > 0; i-- {
			j := Choose(SOrder, site, i+1)
			// j == 0 from an exhausted replay stream must mean "leave as is":
			// swap with i-j so that value 0 is the identity.
			k := i - j
			idx[i], idx[k] = idx[k], idx[i]
		}
	}
	h := stats.OrderHash
	canon := true
	for i, v := range idx {
		if v != i {
			canon = false
		}
		h = mix(h, uint64(site)<<20|uint64(v))
	}
	stats.OrderHash = h
	if !canon {
		stats.OrderNoncanon++
	}
}

//go:norace
func noteUncontrolled(site uint32) {
	if int(site) < MaxSites {
		siteVisits[site]++
		siteUnctl[site]++
	}
	stats.Uncontrolled++
}

// keyString gives a canonical sort key for a map key, if it has one.
func keyString(x any) (string, bool) {
	switch k := x.(type) {
	case string:
		return k, true
	case reflect.Type:
		if k == nil {
			return "", true
		}
		return k.PkgPath() + "\x00" + k.String(), true
	}
	v := reflect.ValueOf(x)
	switch v.Kind() {
	case reflect.String:
		return v.String(), true
	case reflect.Int, reflect.Int8, reflect.Int16, reflect.Int32, reflect.Int64:
		return fmt.Sprintf("%020d", uint64(v.Int())^(1<<63)), true
	case reflect.Uint, reflect.Uint8, reflect.Uint16, reflect.Uint32, reflect.Uint64, reflect.Uintptr:
		return fmt.Sprintf("%020d", v.Uint()), true
	case reflect.Bool:
		if v.Bool() {
			return "1", true
		}
		return "0", true
	case reflect.Pointer:
		// *regexp.Regexp and similar immutable values identified by their text.
		// *Schema-like keys whose String() is not injective are left alone.
		if v.Type().String() == "*regexp.Regexp" {
			if s, ok := x.(fmt.Stringer); ok && !v.IsNil() {
				return s.String(), true
			}
		}
	}
	return "", false
}

type keyed[K any] struct {
	s string
	k K
}

// orderedKeys returns the keys of m in the order decided for this visit, or in
// Go's native order (ok=false) when the key type has no canonical order.
func orderedKeys[M ~map[K]V, K comparable, V any](m M, site uint32) []K {
	n := len(m)
	ks := make([]keyed[K], 0, n)
	ok := true
	for k := range m {
		s, has := keyString(any(k))
		if !has {
			ok = false
		}
		ks = append(ks, keyed[K]{s, k})
	}
	out := make([]K, len(ks))
	if !ok {
		noteUncontrolled(site)
		for i := range ks {
			out[i] = ks[i].k
		}
		return out
	}
	sort.Slice(ks, func(i, j int) bool { return ks[i].s < ks[j].s })
	idx := make([]int, len(ks))
	perm(idx, site)
	for i, p := range idx {
		out[i] = ks[p].k
	}
	return out
}

// MapSeq2 replaces `range m` for a map m. Semantics are those of the language:
// every entry present for the whole loop is produced exactly once, entries
// removed before being reached are skipped, values are read when produced.
func MapSeq2[M ~map[K]V, K comparable, V any](m M, site uint32) iter.Seq2[K, V] {
	return func(yield func(K, V) bool) {
		if len(m) == 0 {
			perm(nil, site)
			return
		}
		for _, k := range orderedKeys(m, site) {
			v, ok := m[k]
			if !ok {
				continue
			}
			if !yield(k, v) {
				return
			}
		}
	}
}

// MapKeysSeq replaces maps.Keys.
func MapKeysSeq[M ~map[K]V, K comparable, V any](m M, site uint32) iter.Seq[K] {
	return func(yield func(K) bool) {
		for k := range MapSeq2(m, site) {
			if !yield(k) {
				return
			}
		}
	}
}

// MapValuesSeq replaces maps.Values.
func MapValuesSeq[M ~map[K]V, K comparable, V any](m M, site uint32) iter.Seq[V] {
	return func(yield func(V) bool) {
		for _, v := range MapSeq2(m, site) {
			if !yield(v) {
				return
			}
		}
	}
}

func reflectKeys(m reflect.Value, site uint32) []reflect.Value {
	keys := m.MapKeys()
	if len(keys) == 0 {
		perm(nil, site)
		return keys
	}
	strs := make([]string, len(keys))
	for i, k := range keys {
		var ok bool
		if k.Kind() == reflect.Interface || k.Kind() == reflect.Pointer || !k.CanInterface() {
			ok = false
		} else {
			strs[i], ok = keyString(k.Interface())
		}
		if !ok {
			noteUncontrolled(site)
			return keys
		}
	}
	ord := make([]int, len(keys))
	for i := range ord {
		ord[i] = i
	}
	sort.Slice(ord, func(i, j int) bool { return strs[ord[i]] < strs[ord[j]] })
	idx := make([]int, len(keys))
	perm(idx, site)
	out := make([]reflect.Value, len(keys))
	for i, p := range idx {
		out[i] = keys[ord[p]]
	}
	return out
}

// MapKeys replaces reflect.Value.MapKeys.
func MapKeys(m reflect.Value, site uint32) []reflect.Value { return reflectKeys(m, site) }

// MapIter replaces *reflect.MapIter as returned by reflect.Value.MapRange.
type MapIter struct {
	m    reflect.Value
	site uint32
	keys []reflect.Value
	i    int
	init bool
}

// MapRange replaces reflect.Value.MapRange.
func MapRange(m reflect.Value, site uint32) *MapIter {
	if m.Kind() != reflect.Map {
		// Same failure as the real thing.
		m.MapRange()
	}
	return &MapIter{m: m, site: site, i: -1}
}

func (it *MapIter) Next() bool {
	if !it.init {
		it.keys = reflectKeys(it.m, it.site)
		it.init = true
	}
	for {
		it.i++
		if it.i >= len(it.keys) {
			return false
		}
		if it.m.MapIndex(it.keys[it.i]).IsValid() {
			return true
		}
	}
}

func (it *MapIter) Key() reflect.Value   { return it.keys[it.i] }
func (it *MapIter) Value() reflect.Value { return it.m.MapIndex(it.keys[it.i]) }

// Reset mirrors reflect.MapIter.Reset.
func (it *MapIter) Reset(v reflect.Value) {
	it.m, it.keys, it.i, it.init = v, nil, -1, false
}

// ValueSeq2 replaces reflect.Value.Seq2.
func ValueSeq2(v reflect.Value, site uint32) iter.Seq2[reflect.Value, reflect.Value] {
	if v.Kind() != reflect.Map {
		return v.Seq2()
	}
	return func(yield func(reflect.Value, reflect.Value) bool) {
		it := MapRange(v, site)
		for it.Next() {
			if !yield(it.Key(), it.Value()) {
				return
			}
		}
	}
}

// ValueSeq replaces reflect.Value.Seq.
func ValueSeq(v reflect.Value, site uint32) iter.Seq[reflect.Value] {
	if v.Kind() != reflect.Map {
		return v.Seq()
	}
	return func(yield func(reflect.Value) bool) {
		it := MapRange(v, site)
		for it.Next() {
			if !yield(it.Key()) {
				return
			}
		}
	}
}

// ---------------------------------------------------------------------------
// T2: hash seed and collisions

// MakeSeed replaces maphash.MakeSeed: the seed value is a recorded decision.
// (With -tags purego hash/maphash is a pure function of the seed value.)
func MakeSeed(site uint32) maphash.Seed {
	v := ChooseU64(SHash, site)
	if v == 0 {
		v = 0x9E3779B97F4A7C15 // the zero Seed means "uninitialised"
	}
	noteSeed()
	var s maphash.Seed
	*(*uint64)(unsafe.Pointer(&s)) = v
	return s
}

//go:norace
func noteSeed() { stats.SeedsDrawn++ }

//go:norace
func maskHash(v uint64) uint64 {
	stats.Sum64Calls++
	if hashMaskBit >= 64 {
		return v
	}
	stats.Sum64Masked++
	if hashMaskBit <= 0 {
		return 0
	}
	return v & (1<<uint(hashMaskBit) - 1)
}

// Sum64 replaces (*maphash.Hash).Sum64; when the collision fault is on, only
// the low bits of the hash survive, so unequal values collide.
func Sum64(h *maphash.Hash, site uint32) uint64 { return maskHash(h.Sum64()) }

// ---------------------------------------------------------------------------
// T5: memo-table misses

//go:norace
func injectMiss(site uint32) bool {
	stats.CacheLoads++
	if missNum > 0 && Chance(SFault, site, missNum, missDen) {
		stats.CacheMissesInj++
		return true
	}
	return false
}

// SyncMapLoad replaces Load on the package-level memo tables: it may report a
// miss although the entry exists, which is what a second goroutine sees just
// before the first one stores, and is legal for a table whose entries are pure
// functions of their keys.
func SyncMapLoad(m *sync.Map, key any, site uint32) (any, bool) {
	if injectMiss(site) {
		return nil, false
	}
	return m.Load(key)
}

// ---------------------------------------------------------------------------
// Generated helpers register themselves here.

var (
	// HashValue is the library's internal value hash, if it still exists.
	HashValue func(h *maphash.Hash, v reflect.Value)
	// ResetCaches restores the package-level memo tables to empty.
	ResetCaches func()
	// Uncontrolled lists nondeterminism the instrumenter found but does not own.
	UncontrolledSources []string
)
