package simrt

import (
	"os"
	"strconv"
)

// SIMRT_SELFTEST=<policy>[:<seed>] makes a process that never calls Reset (the
// repository's own test binary built against the instrumented copy) run under
// the given order policy, with hash masking mask bits if SIMRT_SELFTEST_MASK is
// set. Used only by `./check selftest`.
func init() {
	v := os.Getenv("SIMRT_SELFTEST")
	if v == "" {
		return
	}
	pol, seed := v, uint64(1)
	for i := 0; i < len(v); i++ {
		if v[i] == ':' {
			pol = v[:i]
			seed, _ = strconv.ParseUint(v[i+1:], 10, 64)
		}
	}
	Reset(seed)
	p, _ := strconv.Atoi(pol)
	SetOrderPolicy(p)
	if m := os.Getenv("SIMRT_SELFTEST_MASK"); m != "" {
		b, _ := strconv.Atoi(m)
		SetHashMask(b)
	}
	if m := os.Getenv("SIMRT_SELFTEST_MISS"); m != "" {
		SetCacheMiss(1, 2)
	}
}
