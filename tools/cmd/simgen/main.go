// Command simgen instruments a copy of the jsonschema working tree.
package main

import (
	"encoding/json"
	"flag"
	"fmt"
	"os"

	"verif.local/tools/instr"
)

func main() {
	src := flag.String("src", "/repo", "repository root")
	dst := flag.String("dst", "", "output directory (created)")
	tests := flag.Bool("tests", false, "copy tests and testdata too")
	noy := flag.Bool("noyields", false, "no statement-level yields")
	flag.Parse()
	if *dst == "" {
		fmt.Fprintln(os.Stderr, "simgen: -dst required")
		os.Exit(2)
	}
	rep, err := instr.Run(instr.Options{Src: *src, Dst: *dst, WithTests: *tests, NoYields: *noy})
	if err != nil {
		fmt.Fprintln(os.Stderr, "simgen:", err)
		os.Exit(2)
	}
	out := map[string]any{"files": rep.Files, "sites": len(rep.Sites), "kinds": rep.Kinds,
		"uncontrolled": rep.Uncontrolled, "helpers": rep.Helpers}
	b, _ := json.MarshalIndent(out, "", " ")
	fmt.Println(string(b))
}
