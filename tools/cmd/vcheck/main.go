// Command vcheck is the driver behind ./check: it instruments the current
// working tree of /repo into a scratch directory, builds the simulation worker
// against it, runs the seeded batch on all cores, re-runs a sample in other
// processes to prove determinism, minimises and replays failures, writes the
// evidence file and prints VIOLATION / KNOWN-FINDING lines.
//
// Exit codes: 0 property held on everything explored; 1 violation; 2 trouble
// with instrumentation, build, watchdog or the harness itself.
package main

import (
	"bytes"
	"encoding/json"
	"flag"
	"fmt"
	"os"
	"os/exec"
	"os/signal"
	"path/filepath"
	"runtime"
	"sort"
	"strconv"
	"strings"
	"sync"
	"syscall"
	"time"

	"verif.local/tools/instr"
)

// verifDir is the root of the verification tree: the directory that holds bin/vcheck (so that a
// snapshot of /verif, as made by `vp run`, uses its own sources and writes its own outputs).
var verifDir = func() string {
	if exe, err := os.Executable(); err == nil {
		if real, err := filepath.EvalSymlinks(exe); err == nil {
			exe = real
		}
		root := filepath.Dir(filepath.Dir(exe))
		if _, err := os.Stat(filepath.Join(root, "sim", "go.mod")); err == nil {
			return root
		}
	}
	return "/verif"
}()

// outDir receives evidence/ and replays/; VERIF_OUT redirects it (used when a
// check is run against a scratch copy of the repository, e.g. by sensitivity.sh,
// so that the committed evidence is only ever written by runs against /repo).
func outDir() string {
	if d := os.Getenv("VERIF_OUT"); d != "" {
		return d
	}
	return verifDir
}

type batch struct {
	Driver string
	Build  string // plain | race
	Quick  int
	Thor   int
	Env    []string
	// Procs: number of worker processes (default: one per core). More, shorter-lived processes
	// mean more cold starts of process-wide state that the simulator cannot reset.
	ProcsQuick, ProcsThor int
}

// plans: which simulated workloads decide which property. A check only
// reports failures of its own property; failures of other properties seen on
// the way are counted as "foreign" in the evidence.
var plans = map[string][]batch{
	"C03": {{Driver: "C03", Build: "plain", Quick: 8000, Thor: 240000}},
	"C06": {{Driver: "C06", Build: "plain", Quick: 40000, Thor: 1000000},
		// the other process configuration: a setting that has nothing to do with validation must not change it
		{Driver: "C06", Build: "plain", Quick: 10000, Thor: 250000, Env: []string{"JSONSCHEMAGODEBUG=typeschemasnull=1"}}},
	"C10": {{Driver: "C10", Build: "plain", Quick: 4000, Thor: 160000},
		{Driver: "C03", Build: "plain", Quick: 1200, Thor: 30000}, {Driver: "C06", Build: "plain", Quick: 2000, Thor: 50000},
		{Driver: "C14", Build: "plain", Quick: 1200, Thor: 30000}, {Driver: "C15", Build: "plain", Quick: 2000, Thor: 50000},
		{Driver: "C16", Build: "plain", Quick: 2000, Thor: 50000}, {Driver: "C12", Build: "plain", Quick: 4000, Thor: 100000},
		{Driver: "C13", Build: "plain", Quick: 1500, Thor: 40000}, {Driver: "C19", Build: "plain", Quick: 2000, Thor: 50000},
		{Driver: "C13cold", Build: "plain", Quick: 1000, Thor: 20000, ProcsQuick: 1000, ProcsThor: 20000}},
	"C12": {{Driver: "C12", Build: "plain", Quick: 300000, Thor: 6000000}},
	"C15": {{Driver: "C15", Build: "plain", Quick: 30000, Thor: 800000}},
	"C16": {{Driver: "C16", Build: "plain", Quick: 80000, Thor: 2000000},
		{Driver: "C16", Build: "plain", Quick: 40000, Thor: 1000000, Env: []string{"JSONSCHEMAGODEBUG=typeschemasnull=1"}}},
	"C13": {{Driver: "C13", Build: "plain", Quick: 12000, Thor: 400000}, {Driver: "C13", Build: "race", Quick: 2400, Thor: 80000, ProcsQuick: 64, ProcsThor: 512},
		// process restarts: ONE run per operating-system process, so that the first calls into the library are concurrent
		{Driver: "C13cold", Build: "plain", Quick: 3000, Thor: 40000, ProcsQuick: 3000, ProcsThor: 40000},
		{Driver: "C13cold", Build: "race", Quick: 400, Thor: 6000, ProcsQuick: 400, ProcsThor: 6000}},
	"C14": {{Driver: "C14", Build: "plain", Quick: 6000, Thor: 240000}, {Driver: "C19", Build: "plain", Quick: 3000, Thor: 100000},
		{Driver: "C14", Build: "plain", Quick: 1500, Thor: 60000, Env: []string{"JSONSCHEMAGODEBUG=typeschemasnull=1"}},
		{Driver: "C15", Build: "plain", Quick: 1500, Thor: 50000}, {Driver: "C12", Build: "plain", Quick: 40000, Thor: 1000000}},
	"C19": {{Driver: "C19", Build: "plain", Quick: 30000, Thor: 800000}},
}

var (
	propRule        = map[string]string{}
	propLevel       = map[string]string{}
	propAssumptions = map[string][]string{}
)

func levelOf(p string) string {
	if l := propLevel[p]; l != "" {
		return l
	}
	return "exploration"
}
func ruleOf(p string) string         { return propRule[p] }
func assumptionsOf(p string) []string { return propAssumptions[p] }

type failureRec struct {
	Property string          `json:"property"`
	Oracle   string          `json:"oracle"`
	Site     string          `json:"site"`
	Detail   string          `json:"detail"`
	Index    int             `json:"index"`
	Trace    json.RawMessage `json:"trace"`
	build    string
	driver   string
}

func (f failureRec) key() string { return f.Property + "|" + f.Oracle + "|" + f.Site }

type workerOut struct {
	Driver       string              `json:"driver"`
	Evaluations  int                 `json:"evaluations"`
	Nontrivial   int                 `json:"nontrivial"`
	DistinctKeys []string            `json:"distinct_keys"`
	Digests      map[string][2]string `json:"digests"`
	Faults       map[string]int      `json:"faults"`
	Probes       map[string]int      `json:"probes"`
	Steps        int64               `json:"steps"`
	OrderVisits  int64               `json:"order_visits"`
	OrderMulti   int64               `json:"order_multi"`
	OrderNoncan  int64               `json:"order_noncanonical"`
	Uncontrolled int64               `json:"uncontrolled_visits"`
	Switches     int64               `json:"switches"`
	Preemptions  int64               `json:"preemptions"`
	CacheMisses  int64               `json:"cache_misses_injected"`
	HashMasked   int64               `json:"hash_masked"`
	OrderHashes  []string            `json:"order_hashes"`
	SchedHashes  []string            `json:"sched_hashes"`
	Samples      []json.RawMessage   `json:"samples"`
	Failures     []failureRec        `json:"failures"`
	FailureCount int                 `json:"failure_count"`
	Sites        map[string][3]int   `json:"sites"`
	UnctlSources []string            `json:"uncontrolled_sources"`
	Instrumented bool                `json:"instrumented"`
	Rule         string              `json:"rule"`
	Level        string              `json:"level"`
	Assumptions  []string            `json:"assumptions"`
	WallS        float64             `json:"wall_s"`
	RaceReports  int                 `json:"race_reports"`
	HarnessRaces int                 `json:"harness_race_reports"`
}

type knownFile struct {
	Findings []struct {
		Property string `json:"property"`
		Oracle   string `json:"oracle"`
		Site     string `json:"site"`
		What     string `json:"what"`
	} `json:"findings"`
	Fixed []string `json:"fixed"`
}

var scratch string

func die(code int, format string, args ...any) {
	fmt.Fprintf(os.Stderr, "vcheck: "+format+"\n", args...)
	cleanup()
	os.Exit(code)
}

func cleanup() {
	if scratch != "" && os.Getenv("VERIF_KEEP") == "" {
		os.RemoveAll(scratch)
	}
}

func goEnv() []string {
	env := os.Environ()
	env = append(env, "GOFLAGS=-mod=mod", "GOPROXY=off", "GOSUMDB=off", "GOTOOLCHAIN=local", "CGO_ENABLED=1")
	return env
}

// prepare instruments /repo and builds the worker(s).
func prepare(builds map[string]bool) (*instr.Report, map[string]string) {
	var err error
	scratch, err = os.MkdirTemp("", "verif-scratch-")
	if err != nil {
		die(2, "mktemp: %v", err)
	}
	repo := os.Getenv("VERIF_REPO")
	if repo == "" {
		repo = "/repo"
	}
	rep, err := instr.Run(instr.Options{Src: repo, Dst: filepath.Join(scratch, "repo")})
	if err != nil {
		die(2, "instrumenting %s: %v", repo, err)
	}
	mod := fmt.Sprintf(`module verif.local/sim

go 1.23.0

require (
	github.com/google/jsonschema-go v0.0.0
	verif.local/simrt v0.0.0
)

replace github.com/google/jsonschema-go => %s

replace verif.local/simrt => %s
`, filepath.Join(scratch, "repo"), filepath.Join(verifDir, "simrt"))
	os.WriteFile(filepath.Join(scratch, "go.mod"), []byte(mod), 0o644)
	if b, err := os.ReadFile(filepath.Join(repo, "go.sum")); err == nil {
		os.WriteFile(filepath.Join(scratch, "go.sum"), b, 0o644)
	}
	bins := map[string]string{}
	var wg sync.WaitGroup
	var mu sync.Mutex
	var berr error
	for b := range builds {
		wg.Add(1)
		go func(b string) {
			defer wg.Done()
			out := filepath.Join(scratch, "simrun."+b)
			args := []string{"build", "-tags", "verif,purego", "-modfile=" + filepath.Join(scratch, "go.mod"), "-o", out}
			if b == "race" {
				args = append(args, "-race")
			}
			args = append(args, "./cmd/simrun")
			cmd := exec.Command("go", args...)
			cmd.Dir = filepath.Join(verifDir, "sim")
			cmd.Env = goEnv()
			o, err := cmd.CombinedOutput()
			mu.Lock()
			defer mu.Unlock()
			if err != nil {
				berr = fmt.Errorf("go build (%s): %v\n%s", b, err, o)
				return
			}
			bins[b] = out
		}(b)
	}
	wg.Wait()
	if berr != nil {
		die(2, "%v", berr)
	}
	return rep, bins
}

type batchResult struct {
	b       batch
	n       int
	outs    []*workerOut
	wall    float64
	digests map[int][2]string
}

func runWorkers(bin string, b batch, tier string, seed uint64, n, workers int, maxwall time.Duration) (*batchResult, error) {
	t0 := time.Now()
	res := &batchResult{b: b, n: n, digests: map[int][2]string{}}
	slots := make(chan struct{}, workers) // at most one process per core at a time
	if procs := b.ProcsQuick; tier != "thorough" && procs > workers {
		workers = procs
	}
	if procs := b.ProcsThor; tier == "thorough" && procs > workers {
		workers = procs
	}
	if workers > n {
		workers = n
	}
	var wg sync.WaitGroup
	var mu sync.Mutex
	var firstErr error
	for w := 0; w < workers; w++ {
		wg.Add(1)
		go func(w int) {
			defer wg.Done()
			slots <- struct{}{}
			defer func() { <-slots }()
			outFile := filepath.Join(scratch, fmt.Sprintf("out-%s-%s-%d.json", b.Driver, b.Build, w))
			args := []string{"-driver", b.Driver, "-tier", tier, "-seed", fmt.Sprint(seed), "-from", fmt.Sprint(w), "-to", fmt.Sprint(n),
				"-stride", fmt.Sprint(workers), "-out", outFile, "-build", b.Build, "-maxwall", maxwall.String()}
			wo, err := runSimrun(bin, args, b, outFile, w, maxwall+5*time.Minute)
			mu.Lock()
			defer mu.Unlock()
			if err != nil {
				if firstErr == nil {
					firstErr = err
				}
				return
			}
			res.outs = append(res.outs, wo)
		}(w)
	}
	wg.Wait()
	if firstErr != nil {
		return nil, firstErr
	}
	for _, wo := range res.outs {
		for k, v := range wo.Digests {
			i, _ := strconv.Atoi(k)
			res.digests[i] = v
		}
	}
	res.wall = time.Since(t0).Seconds()
	return res, nil
}

func runSimrun(bin string, args []string, b batch, outFile string, w int, timeout time.Duration) (*workerOut, error) {
	cmd := exec.Command(bin, args...)
	cmd.Env = append(os.Environ(), "GOMAXPROCS=2")
	cmd.Env = append(cmd.Env, b.Env...)
	if b.Build == "race" {
		cmd.Env = append(cmd.Env, fmt.Sprintf("GORACE=halt_on_error=0 exitcode=0 log_path=%s", filepath.Join(scratch, fmt.Sprintf("race-%s-%d-%d", b.Driver, w, time.Now().UnixNano()))))
	}
	var stderr bytes.Buffer
	cmd.Stderr = &stderr
	cmd.SysProcAttr = &syscall.SysProcAttr{Setpgid: true}
	if err := cmd.Start(); err != nil {
		return nil, err
	}
	done := make(chan error, 1)
	go func() { done <- cmd.Wait() }()
	select {
	case err := <-done:
		if err != nil {
			return nil, fmt.Errorf("worker %s %v: %v\n%s", b.Driver, args, err, tail(stderr.String(), 3000))
		}
	case <-time.After(timeout):
		syscall.Kill(-cmd.Process.Pid, syscall.SIGKILL)
		return nil, fmt.Errorf("worker %s: watchdog after %v (harness stuck)\n%s", b.Driver, timeout, tail(stderr.String(), 2000))
	}
	if s := stderr.String(); strings.Contains(s, "HARNESS-") {
		return nil, fmt.Errorf("worker %s reported a harness problem:\n%s", b.Driver, tail(s, 3000))
	}
	raw, err := os.ReadFile(outFile)
	if err != nil {
		return nil, err
	}
	var wo workerOut
	if err := json.Unmarshal(raw, &wo); err != nil {
		return nil, fmt.Errorf("worker output: %v", err)
	}
	os.Remove(outFile)
	return &wo, nil
}

func head(s string, n int) string {
	if len(s) > n {
		return s[:n] + "…"
	}
	return s
}

func tail(s string, n int) string {
	if len(s) > n {
		return "…" + s[len(s)-n:]
	}
	return s
}

// determinism re-runs a sample of indices in fresh processes at other
// GOMAXPROCS settings and compares digests.
func determinism(bin string, br *batchResult, tier string, seed uint64) (sample int, inputDiff, outputDiff []int, err error) {
	n := len(br.digests)
	want := n / 20
	if tier == "thorough" {
		want = n / 50
	}
	if want < 30 {
		want = 30
	}
	if want > 300 {
		want = 300
	}
	if want > n {
		want = n
	}
	var all []int
	for i := range br.digests {
		all = append(all, i)
	}
	sort.Ints(all)
	var idx []int
	for k := 0; k < want; k++ {
		idx = append(idx, all[k*len(all)/want])
	}
	strs := make([]string, len(idx))
	for i, v := range idx {
		strs[i] = fmt.Sprint(v)
	}
	type res struct {
		wo  *workerOut
		err error
	}
	ch := make(chan res, 3)
	for gi, gmp := range []string{"1", "4", "16"} {
		go func(gi int, gmp string) {
			outFile := filepath.Join(scratch, fmt.Sprintf("det-%s-%s-%s.json", br.b.Driver, br.b.Build, gmp))
			// reverse the order for one of them: results must not depend on what ran before in the process
			ord := append([]string(nil), strs...)
			if gi == 1 {
				for i, j := 0, len(ord)-1; i < j; i, j = i+1, j-1 {
					ord[i], ord[j] = ord[j], ord[i]
				}
			}
			args := []string{"-driver", br.b.Driver, "-tier", tier, "-seed", fmt.Sprint(seed), "-indices", strings.Join(ord, ","), "-out", outFile, "-build", br.b.Build}
			b := br.b
			b.Env = append(append([]string(nil), b.Env...), "GOMAXPROCS="+gmp)
			wo, err := runSimrunEnvLast(bin, args, b, outFile, 100+gi, 20*time.Minute)
			ch <- res{wo, err}
		}(gi, gmp)
	}
	idiff := map[int]bool{}
	odiff := map[int]bool{}
	for k := 0; k < 3; k++ {
		r := <-ch
		if r.err != nil {
			return 0, nil, nil, r.err
		}
		for ks, d := range r.wo.Digests {
			i, _ := strconv.Atoi(ks)
			ref := br.digests[i]
			if d[0] != ref[0] {
				idiff[i] = true
			} else if d[1] != ref[1] {
				odiff[i] = true
			}
		}
	}
	for i := range idiff {
		inputDiff = append(inputDiff, i)
	}
	for i := range odiff {
		outputDiff = append(outputDiff, i)
	}
	sort.Ints(inputDiff)
	sort.Ints(outputDiff)
	return len(idx), inputDiff, outputDiff, nil
}

// runSimrunEnvLast is runSimrun but lets b.Env override GOMAXPROCS.
func runSimrunEnvLast(bin string, args []string, b batch, outFile string, w int, timeout time.Duration) (*workerOut, error) {
	return runSimrun(bin, args, b, outFile, w, timeout)
}

func loadKnown() knownFile {
	var k knownFile
	b, err := os.ReadFile(filepath.Join(verifDir, "known_findings.json"))
	if err == nil {
		if err := json.Unmarshal(b, &k); err != nil {
			die(2, "known_findings.json: %v", err)
		}
	}
	return k
}

func main() {
	prop := flag.String("prop", "", "property id")
	tier := flag.String("tier", "quick", "quick | thorough")
	replay := flag.String("replay", "", "replay file")
	seedFlag := flag.Uint64("seed", 0, "seed (default $VERIF_SEED or 1)")
	scale := flag.Float64("scale", 1, "multiply the number of runs")
	flag.Parse()

	sig := make(chan os.Signal, 1)
	signal.Notify(sig, syscall.SIGINT, syscall.SIGTERM)
	go func() { <-sig; cleanup(); os.Exit(2) }()

	seed := *seedFlag
	if seed == 0 {
		if s := os.Getenv("VERIF_SEED"); s != "" {
			v, err := strconv.ParseUint(s, 10, 64)
			if err != nil {
				die(2, "VERIF_SEED: %v", err)
			}
			seed = v
		} else {
			seed = 1
		}
	}
	if t := os.Getenv("VERIF_TIER"); t != "" && flag.Lookup("tier").Value.String() == "quick" && !flagSet("tier") {
		*tier = t
	}
	if *replay != "" {
		os.Exit(doReplay(*replay))
	}
	bs, ok := plans[*prop]
	if !ok {
		die(2, "unknown property %q", *prop)
	}
	os.Exit(doCheck(*prop, *tier, seed, bs, *scale))
}

// maxClasses: how many distinct failure classes are minimised and replayed (the rest are listed).
func maxClasses() int {
	if v, err := strconv.Atoi(os.Getenv("VERIF_MAX_CLASSES")); err == nil && v > 0 {
		return v
	}
	return 6
}

func minimiseBudget() string {
	if v := os.Getenv("VERIF_MINIMISE_BUDGET"); v != "" {
		return v
	}
	return "60s"
}

func flagSet(name string) bool {
	set := false
	flag.Visit(func(f *flag.Flag) {
		if f.Name == name {
			set = true
		}
	})
	return set
}

func doReplay(path string) int {
	raw, err := os.ReadFile(path)
	if err != nil {
		die(2, "%v", err)
	}
	var tf struct {
		Property string            `json:"property"`
		Build    string            `json:"build"`
		Env      map[string]string `json:"env"`
	}
	if err := json.Unmarshal(raw, &tf); err != nil {
		die(2, "replay file: %v", err)
	}
	if tf.Build == "" {
		tf.Build = "plain"
	}
	_, bins := prepare(map[string]bool{tf.Build: true})
	defer cleanup()
	code, out := replayOnce(bins[tf.Build], path, tf.Build, tf.Env, true)
	for try := 0; try < 12 && code == 0 && tf.Build == "race"; try++ {
		code, out = replayOnce(bins[tf.Build], path, tf.Build, tf.Env, true)
	}
	fmt.Print(out)
	if code == 1 {
		fmt.Printf("VIOLATION property=%s replay=%s\n", tf.Property, path)
		cleanup()
		return 1
	}
	if code != 0 {
		cleanup()
		return 2
	}
	fmt.Printf("replay of %s: the violation does not occur on this tree\n", path)
	return 0
}

// replayOnce runs simrun -replay in a fresh process: 1 = reproduced, 0 = not, 2 = trouble.
func replayOnce(bin, path, build string, env map[string]string, verbose bool) (int, string) {
	args := []string{"-replay", path}
	if verbose {
		args = append(args, "-v")
	}
	cmd := exec.Command(bin, args...)
	cmd.Env = append(os.Environ(), "GOMAXPROCS=2")
	for k, v := range env {
		cmd.Env = append(cmd.Env, k+"="+v)
	}
	if build == "race" {
		cmd.Env = append(cmd.Env, fmt.Sprintf("GORACE=halt_on_error=0 exitcode=0 log_path=%s", filepath.Join(scratch, fmt.Sprintf("race-replay-%d", time.Now().UnixNano()))))
	}
	var out bytes.Buffer
	cmd.Stdout = &out
	cmd.Stderr = &out
	err := cmd.Run()
	if err == nil {
		return 0, out.String()
	}
	if ee, ok := err.(*exec.ExitError); ok && ee.ExitCode() == 1 {
		return 1, out.String()
	}
	return 2, out.String() + "\n" + err.Error()
}

func doCheck(prop, tier string, seed uint64, bs []batch, scale float64) int {
	t0 := time.Now()
	builds := map[string]bool{}
	for _, b := range bs {
		builds[b.Build] = true
	}
	rep, bins := prepare(builds)
	defer cleanup()
	tBuild := time.Since(t0).Seconds()
	workers := runtime.NumCPU()
	if workers > 16 {
		workers = 16
	}
	known := loadKnown()

	agg := struct {
		evals, nontrivial int
		distinct          map[string]bool
		faults, probes    map[string]int
		steps             int64
		visits, multi, noncanon, unctl, switches, preempt, misses, masked int64
		orderHashes, schedHashes map[string]bool
		samples                  []json.RawMessage
		failures                 []failureRec
		failureCount             int
		foreign                  map[string]int
		sites                    map[string][3]int
		unctlSources             []string
		race, harnessRace        int
		perBatch                 []map[string]any
		detSample                int
		detOutputDiff            []string
	}{distinct: map[string]bool{}, faults: map[string]int{}, probes: map[string]int{}, orderHashes: map[string]bool{},
		schedHashes: map[string]bool{}, foreign: map[string]int{}, sites: map[string][3]int{}}

	for _, b := range bs {
		n := b.Quick
		maxwall := 8 * time.Minute
		if tier == "thorough" {
			n = b.Thor
			maxwall = 60 * time.Minute
		}
		n = int(float64(n) * scale)
		if n < 1 {
			n = 1
		}
		br, err := runWorkers(bins[b.Build], b, tier, seed, n, workers, maxwall)
		if err != nil {
			die(2, "%v", err)
		}
		bevals := 0
		for _, wo := range br.outs {
			if !wo.Instrumented {
				die(2, "worker ran against an uninstrumented library")
			}
			if b.Driver == prop || propRule[prop] == "" {
				propRule[prop], propLevel[prop], propAssumptions[prop] = wo.Rule, wo.Level, wo.Assumptions
			}
			bevals += wo.Evaluations
			agg.evals += wo.Evaluations
			agg.nontrivial += wo.Nontrivial
			for _, k := range wo.DistinctKeys {
				agg.distinct[b.Driver+":"+k] = true
			}
			for k, v := range wo.Faults {
				agg.faults[k] += v
			}
			for k, v := range wo.Probes {
				agg.probes[k] += v
			}
			agg.steps += wo.Steps
			agg.visits += wo.OrderVisits
			agg.multi += wo.OrderMulti
			agg.noncanon += wo.OrderNoncan
			agg.unctl += wo.Uncontrolled
			agg.switches += wo.Switches
			agg.preempt += wo.Preemptions
			agg.misses += wo.CacheMisses
			agg.masked += wo.HashMasked
			for _, h := range wo.OrderHashes {
				agg.orderHashes[h] = true
			}
			for _, h := range wo.SchedHashes {
				agg.schedHashes[h] = true
			}
			if len(agg.samples) < 3 {
				agg.samples = append(agg.samples, wo.Samples...)
			}
			for _, f := range wo.Failures {
				f.build = b.Build
				f.driver = b.Driver
				agg.failures = append(agg.failures, f)
			}
			agg.failureCount += wo.FailureCount
			for k, v := range wo.Sites {
				o := agg.sites[k]
				agg.sites[k] = [3]int{o[0] + v[0], o[1] + v[1], o[2] + v[2]}
			}
			agg.unctlSources = wo.UnctlSources
			agg.race += wo.RaceReports
			agg.harnessRace += wo.HarnessRaces
		}
		if agg.harnessRace > 0 {
			die(2, "the race detector reported races outside the library (harness bug)")
		}
		// determinism sample
		ds, idiff, odiff, err := determinism(bins[b.Build], br, tier, seed)
		if err != nil {
			die(2, "determinism sample: %v", err)
		}
		if len(idiff) > 0 {
			die(2, "harness nondeterminism: runs %v of driver %s generated different inputs in another process", idiff, b.Driver)
		}
		agg.detSample += ds
		for _, i := range odiff {
			agg.detOutputDiff = append(agg.detOutputDiff, fmt.Sprintf("%s#%d", b.Driver, i))
			agg.failures = append(agg.failures, failureRec{Property: "C14", Oracle: "C14/process-independence", Site: b.Driver,
				Detail: fmt.Sprintf("run %d of driver %s (seed %d) produced different library results in another process at another GOMAXPROCS although every controlled decision was identical", i, b.Driver, seed),
				Index:  i, build: b.Build, driver: b.Driver})
		}
		agg.perBatch = append(agg.perBatch, map[string]any{"driver": b.Driver, "build": b.Build, "runs": bevals, "wall_s": round(br.wall),
			"runs_per_hour": int(float64(bevals) / br.wall * 3600), "determinism_sample": ds})
	}

	// Classify failures.
	byKey := map[string][]failureRec{}
	var keys []string
	for _, f := range agg.failures {
		if f.Property != prop {
			agg.foreign[f.key()]++
			continue
		}
		if _, ok := byKey[f.key()]; !ok {
			keys = append(keys, f.key())
		}
		byKey[f.key()] = append(byKey[f.key()], f)
	}
	sort.Strings(keys)
	violations := 0
	var lines []string
	os.MkdirAll(filepath.Join(outDir(), "replays"), 0o755)
	if old, _ := filepath.Glob(filepath.Join(outDir(), "replays", prop+"-*.json")); len(old) > 0 {
		for _, o := range old {
			os.Remove(o)
		}
	}
	for ki, k := range keys {
		fs := byKey[k]
		sort.Slice(fs, func(i, j int) bool { return fs[i].Index < fs[j].Index })
		f := fs[0]
		isKnown := false
		for _, kf := range known.Findings {
			if kf.Property == f.Property && kf.Oracle == f.Oracle && kf.Site == f.Site {
				lines = append(lines, fmt.Sprintf("KNOWN-FINDING: property=%s %s [%s] %s", f.Property, f.Oracle, f.Site, kf.What))
				isKnown = true
			}
		}
		if isKnown {
			continue
		}
		violations++
		if ki >= maxClasses() {
			lines = append(lines, fmt.Sprintf("VIOLATION property=%s replay=(not minimised: more distinct failure classes than are minimised) oracle=%s site=%q", prop, f.Oracle, f.Site))
			continue
		}
		path := filepath.Join(outDir(), "replays", fmt.Sprintf("%s-%d-%d-%d.json", prop, seed, f.Index, ki))
		note := ""
		if len(f.Trace) > 0 {
			os.WriteFile(path, f.Trace, 0o644)
			if f.build != "race" {
				cmd := exec.Command(bins[f.build], "-minimise", path, "-budget", minimiseBudget())
				cmd.Env = append(os.Environ(), "GOMAXPROCS=2")
				if o, err := cmd.CombinedOutput(); err != nil {
					note = " (minimiser failed: " + tail(string(o), 200) + ")"
					os.WriteFile(path, f.Trace, 0o644)
				}
			}
			code, _ := replayOnce(bins[f.build], path, f.build, nil, false)
			if code != 1 {
				// fall back to the unminimised trace
				os.WriteFile(path, f.Trace, 0o644)
				code, _ = replayOnce(bins[f.build], path, f.build, nil, false)
				// whether the race detector still holds the earlier access in its shadow cells is
				// not something the simulator decides: give a race a few fresh processes
				for try := 0; try < 12 && code != 1 && f.build == "race"; try++ {
					code, _ = replayOnce(bins[f.build], path, f.build, nil, false)
				}
				if code != 1 {
					note += " (did not reproduce in a fresh process: reported with the recorded trace)"
				}
			}
		} else {
			b, _ := json.MarshalIndent(map[string]any{"property": f.Property, "oracle": f.Oracle, "site": f.Site, "seed": seed, "run": f.Index,
				"driver": f.driver, "build": f.build, "tier": tier, "detail": f.Detail,
				"note": "cause lies outside every seam: re-run this seed and index in several fresh processes and compare result digests"}, "", " ")
			os.WriteFile(path, b, 0o644)
		}
		lines = append(lines, fmt.Sprintf("VIOLATION property=%s replay=%s", prop, path))
		lines = append(lines, fmt.Sprintf("  oracle=%s site=%q occurrences=%d first_run=%d%s", f.Oracle, f.Site, len(fs), f.Index, note))
		lines = append(lines, "  "+strings.ReplaceAll(head(f.Detail, 900), "\n", "\n  "))
	}

	wall := time.Since(t0).Seconds()
	// Evidence.
	var ctl, unctlSites []string
	for name, v := range agg.sites {
		s := fmt.Sprintf("%s visits=%d multi=%d", name, v[0], v[1])
		if v[2] > 0 {
			unctlSites = append(unctlSites, s+fmt.Sprintf(" uncontrolled=%d", v[2]))
		} else if v[0] > 0 {
			ctl = append(ctl, s)
		}
	}
	sort.Strings(ctl)
	sort.Strings(unctlSites)
	samples := agg.samples
	if len(samples) > 3 {
		samples = samples[:3]
	}
	if len(samples) == 0 {
		samples = []json.RawMessage{json.RawMessage(`"no sample recorded"`)}
	}
	ev := map[string]any{
		"property_id": prop,
		"tier":        tier,
		"seed":        seed,
		"level":       levelOf(prop),
		"wall_s":      round(wall),
		"violations":  violations,
		"coverage": map[string]any{
			"evaluations":         agg.evals,
			"distinct_nontrivial": len(agg.distinct),
			"nontrivial_runs":     agg.nontrivial,
			"rule":                ruleOf(prop),
			"samples":             samples,
			"simulated_runs":      agg.evals,
			"runs_per_hour":       int(float64(agg.evals) / (wall - tBuild + 0.001) * 3600),
			"seeds_per_hour":      int(float64(agg.evals) / (wall - tBuild + 0.001) * 3600), // every run has its own derived seed
			"simulated_time_steps": agg.steps,
			"batches":             agg.perBatch,
			"fault_kinds_fired":   agg.faults,
			"reach_probes":        agg.probes,
			"schedule_space": map[string]any{
				"controlled_map_visits":            agg.visits,
				"visits_with_2plus_entries":        agg.multi,
				"visits_served_noncanonical":       agg.noncanon,
				"distinct_order_vectors":           len(agg.orderHashes),
				"goroutine_switches":               agg.switches,
				"preemptions_inside_operations":    agg.preempt,
				"distinct_goroutine_schedules":     len(agg.schedHashes),
				"memo_misses_injected":             agg.misses,
				"hash_results_masked_to_collide":   agg.masked,
				"uncontrolled_map_visits":          agg.unctl,
				"controlled_sites_visited":         ctl,
				"sites_without_canonical_order":    unctlSites,
				"uncontrolled_sources_in_the_tree": agg.unctlSources,
			},
			"determinism": map[string]any{
				"runs_repeated_in_fresh_processes": agg.detSample, "gomaxprocs": []int{1, 4, 16},
				"input_digest_mismatches": 0, "result_digest_mismatches": agg.detOutputDiff,
			},
			"race_detector_reports_in_library": agg.race,
			"failures_of_other_properties_seen": agg.foreign,
			"instrumentation": map[string]any{"files": rep.Files, "sites": len(rep.Sites), "kinds": rep.Kinds, "generated_helpers": rep.Helpers},
			"components": map[string]any{
				"real": []string{"package jsonschema from /repo's working tree (all files, re-instrumented for this run)", "encoding/json", "regexp", "net/url", "reflect", "math/big", "hash/maphash (portable implementation, -tags purego)", "Go race detector (race builds)"},
				"simulated": []string{"map iteration order at every range/MapRange/MapKeys/Seq2/maps.Keys site", "maphash seed and Sum64 collisions", "goroutine choice and pre-emption (virtual goroutines, token passing)", "the Loader and its document universe", "memo-table misses"},
			},
			"build_s": round(tBuild),
		},
		"assumptions": assumptionsOf(prop),
	}
	os.MkdirAll(filepath.Join(outDir(), "evidence"), 0o755)
	eb, _ := json.MarshalIndent(ev, "", " ")
	if err := os.WriteFile(filepath.Join(outDir(), "evidence", prop+".json"), eb, 0o644); err != nil {
		die(2, "writing evidence: %v", err)
	}
	fmt.Printf("check %s tier=%s seed=%d: %d simulated runs (%d distinct non-trivial), %d steps, %d loader/cache/hash faults fired, determinism sample %d, %.1fs (build %.1fs)\n",
		prop, tier, seed, agg.evals, len(agg.distinct), agg.steps, sumMap(agg.faults)+int(agg.misses)+int(agg.masked), agg.detSample, wall, tBuild)
	if len(agg.foreign) > 0 {
		fmt.Printf("note: failures of other properties seen while running this workload (reported by their own checks): %v\n", agg.foreign)
	}
	for _, l := range lines {
		fmt.Println(l)
	}
	if violations > 0 {
		cleanup()
		return 1
	}
	fmt.Printf("OK property=%s\n", prop)
	return 0
}

func sumMap(m map[string]int) int {
	n := 0
	for _, v := range m {
		n += v
	}
	return n
}

func round(f float64) float64 { return float64(int(f*100)) / 100 }
