module verif.local/tools

go 1.23.0
