// Package instr rewrites a copy of the jsonschema working tree so that every
// source of nondeterminism the properties depend on goes through simrt
// (DESIGN.md §3.1). Rewrites are spliced into the source text at AST offsets:
// comments, directives and line numbers survive, and whatever compiles in
// /repo compiles in the copy.
package instr

import (
	"bytes"
	"fmt"
	"go/ast"
	"go/build"
	"go/importer"
	"go/parser"
	"go/printer"
	"go/token"
	"go/types"
	"io/fs"
	"os"
	"path/filepath"
	"reflect"
	"sort"
	"strings"
)

// Options control the instrumentation.
type Options struct {
	Src       string // repository root (contains go.mod and jsonschema/)
	Dst       string // directory to create; receives the module copy
	WithTests bool   // also copy _test.go files and testdata (instrumenter self-test)
	NoYields  bool   // skip statement-level yields
}

// Report describes what was done.
type Report struct {
	Files        int
	Sites        []string // id -> description
	Kinds        map[string]int
	Uncontrolled []string // nondeterminism found but not owned by the simulator
	Helpers      []string // generated helpers
	MemoTables   []string
}

const simrtImport = "verif.local/simrt"
const alias = "__simrt"

// memo tables to which miss injection applies (DESIGN T5).
var memoNames = map[string]bool{"structProperties": true, "jsonNamesMap": true}

type edit struct {
	pos, end int // byte offsets; end==pos for an insertion
	text     string
	seq      int
}

type fileCtx struct {
	name  string
	src   []byte
	file  *ast.File
	edits []edit
	keep  map[string]bool // keepalive declarations
}

type ctx struct {
	fset  *token.FileSet
	info  *types.Info
	pkg   *types.Package
	rep   *Report
	files []*fileCtx
	opt   Options
}

func (c *ctx) site(fc *fileCtx, pos token.Pos, kind, what string) int {
	p := c.fset.Position(pos)
	what = strings.Join(strings.Fields(what), " ")
	if len(what) > 60 {
		what = what[:57] + "..."
	}
	id := len(c.rep.Sites)
	c.rep.Sites = append(c.rep.Sites, fmt.Sprintf("%s:%d %s %s", filepath.Base(p.Filename), p.Line, kind, what))
	c.rep.Kinds[kind]++
	return id
}

func (fc *fileCtx) off(fset *token.FileSet, p token.Pos) int { return fset.Position(p).Offset }

func (fc *fileCtx) insert(off int, text string) {
	fc.edits = append(fc.edits, edit{off, off, text, len(fc.edits)})
}

func (fc *fileCtx) replace(from, to int, text string) {
	fc.edits = append(fc.edits, edit{from, to, text, len(fc.edits)})
}

func (c *ctx) text(n ast.Node) string {
	var b bytes.Buffer
	printer.Fprint(&b, c.fset, n)
	return b.String()
}

func isNamed(t types.Type, pkgPath, name string) bool {
	if t == nil {
		return false
	}
	t = types.Unalias(t)
	n, ok := t.(*types.Named)
	if !ok {
		return false
	}
	o := n.Obj()
	return o != nil && o.Name() == name && o.Pkg() != nil && o.Pkg().Path() == pkgPath
}

func derefNamed(t types.Type, pkgPath, name string) (is bool, ptr bool) {
	if t == nil {
		return false, false
	}
	if p, ok := types.Unalias(t).Underlying().(*types.Pointer); ok {
		return isNamed(p.Elem(), pkgPath, name), true
	}
	return isNamed(t, pkgPath, name), false
}

// pkgFunc reports whether call is pkgPath.name(...) and returns the selector.
func (c *ctx) pkgFunc(call *ast.CallExpr) (pkgPath, name string, sel *ast.SelectorExpr) {
	fun := call.Fun
	// explicit instantiation maps.Keys[M](m)
	switch f := fun.(type) {
	case *ast.IndexExpr:
		fun = f.X
	case *ast.IndexListExpr:
		fun = f.X
	}
	s, ok := fun.(*ast.SelectorExpr)
	if !ok {
		return "", "", nil
	}
	id, ok := s.X.(*ast.Ident)
	if !ok {
		return "", "", nil
	}
	pn, ok := c.info.Uses[id].(*types.PkgName)
	if !ok {
		return "", "", nil
	}
	return pn.Imported().Path(), s.Sel.Name, s
}

func (c *ctx) instrumentFile(fc *fileCtx) {
	fset := c.fset
	ast.Inspect(fc.file, func(n ast.Node) bool {
		switch n := n.(type) {
		case *ast.RangeStmt:
			t := c.info.TypeOf(n.X)
			if t == nil {
				return true
			}
			switch u := types.Unalias(t).Underlying().(type) {
			case *types.Map:
				id := c.site(fc, n.X.Pos(), "range", c.text(n.X))
				fc.insert(fc.off(fset, n.X.Pos()), alias+".MapSeq2(")
				fc.insert(fc.off(fset, n.X.End()), fmt.Sprintf(", %d)", id))
			case *types.Interface:
				if _, isTP := types.Unalias(t).(*types.TypeParam); isTP {
					_ = u
					c.rep.Uncontrolled = append(c.rep.Uncontrolled,
						fmt.Sprintf("%s: range over a type-parameter value", fset.Position(n.Pos())))
				}
			}
		case *ast.SelectStmt:
			c.rep.Uncontrolled = append(c.rep.Uncontrolled, fmt.Sprintf("%s: select statement", fset.Position(n.Pos())))
		case *ast.GoStmt:
			c.rep.Uncontrolled = append(c.rep.Uncontrolled, fmt.Sprintf("%s: go statement", fset.Position(n.Pos())))
		case *ast.SendStmt:
			c.rep.Uncontrolled = append(c.rep.Uncontrolled, fmt.Sprintf("%s: channel send", fset.Position(n.Pos())))
		case *ast.UnaryExpr:
			if n.Op == token.ARROW {
				c.rep.Uncontrolled = append(c.rep.Uncontrolled, fmt.Sprintf("%s: channel receive", fset.Position(n.Pos())))
			}
		case *ast.CallExpr:
			c.instrumentCall(fc, n)
		case *ast.BlockStmt:
			if !c.opt.NoYields {
				c.yields(fc, n.List, fc.off(fset, n.Lbrace)+1, n.Lbrace)
			}
		case *ast.CaseClause:
			if !c.opt.NoYields {
				c.yields(fc, n.Body, fc.off(fset, n.Colon)+1, n.Colon)
			}
		case *ast.CommClause:
			if !c.opt.NoYields {
				c.yields(fc, n.Body, fc.off(fset, n.Colon)+1, n.Colon)
			}
		}
		return true
	})
}

func (c *ctx) yields(fc *fileCtx, list []ast.Stmt, emptyOff int, emptyPos token.Pos) {
	n := 0
	for _, s := range list {
		switch s.(type) {
		case *ast.CaseClause, *ast.CommClause:
			continue // the "statements" of a switch/select body are its clauses
		}
		n++
		hot, simple := c.hotStmt(s)
		id := c.site(fc, s.Pos(), "yield", "")
		text := fmt.Sprintf("%s.Yield(%d); ", alias, id)
		if hot {
			// a synchronisation point: package-level state, sync or sync/atomic
			c.rep.Kinds["yield-hot"]++
			text = fmt.Sprintf("%s.YieldHot(%d); ", alias, id)
			if simple {
				id2 := c.site(fc, s.End(), "yield", "(after synchronisation point)")
				fc.insert(fc.off(c.fset, s.End()), fmt.Sprintf("; %s.YieldHot(%d)", alias, id2))
			}
			if is, ok := s.(*ast.IfStmt); ok {
				// the branch taken on the strength of what the condition saw
				id2 := c.site(fc, is.Body.Lbrace, "yield", "(after hot condition)")
				fc.insert(fc.off(c.fset, is.Body.Lbrace)+1, fmt.Sprintf(" %s.YieldHot(%d); ", alias, id2))
				if eb, ok := is.Else.(*ast.BlockStmt); ok {
					id3 := c.site(fc, eb.Lbrace, "yield", "(after hot condition)")
					fc.insert(fc.off(c.fset, eb.Lbrace)+1, fmt.Sprintf(" %s.YieldHot(%d); ", alias, id3))
				}
			}
		}
		if _, isDefer := s.(*ast.DeferStmt); isDefer {
			// Deferred calls run last-in first-out: a deferred yield registered just before
			// runs right AFTER the original deferred call, i.e. between the function's
			// clean-up (unlock, pool.Put, pop) and its caller using the result.
			id2 := c.site(fc, s.Pos(), "yield", "(after deferred call)")
			text += fmt.Sprintf("defer %s.Yield(%d); ", alias, id2)
		}
		fc.insert(fc.off(c.fset, s.Pos()), text)
	}
	if n == 0 && len(list) == 0 {
		id := c.site(fc, emptyPos, "yield", "(empty block)")
		fc.insert(emptyOff, fmt.Sprintf(" %s.Yield(%d); ", alias, id))
	}
}

// hotStmt reports whether the statement's own expressions (not the bodies it governs) touch
// package-level variables of the library or call into sync / sync/atomic, and whether it is a
// simple statement after which a further yield can be placed.
func (c *ctx) hotStmt(s ast.Stmt) (hot, simple bool) {
	var parts []ast.Node
	switch s := s.(type) {
	case *ast.ExprStmt, *ast.AssignStmt, *ast.IncDecStmt, *ast.DeclStmt:
		parts, simple = []ast.Node{s}, true
	case *ast.ReturnStmt, *ast.DeferStmt, *ast.GoStmt, *ast.SendStmt:
		parts = []ast.Node{s}
	case *ast.IfStmt:
		parts = []ast.Node{s.Init, s.Cond}
	case *ast.ForStmt:
		parts = []ast.Node{s.Init, s.Cond, s.Post}
	case *ast.RangeStmt:
		parts = []ast.Node{s.X}
	case *ast.SwitchStmt:
		parts = []ast.Node{s.Init, s.Tag}
	case *ast.TypeSwitchStmt:
		parts = []ast.Node{s.Init, s.Assign}
	case *ast.LabeledStmt:
		h, _ := c.hotStmt(s.Stmt)
		return h, false
	}
	for _, p := range parts {
		if p == nil || reflect.ValueOf(p).IsNil() {
			continue
		}
		ast.Inspect(p, func(n ast.Node) bool {
			switch n := n.(type) {
			case *ast.FuncLit:
				return false
			case *ast.Ident:
				obj := c.info.Uses[n]
				if obj == nil {
					obj = c.info.Defs[n]
				}
				if v, ok := obj.(*types.Var); ok && !v.IsField() && v.Pkg() == c.pkg && v.Parent() == c.pkg.Scope() {
					hot = true
				}
			case *ast.CallExpr:
				if path, _, sel := c.pkgFunc(n); sel != nil && path == "sync/atomic" {
					hot = true
				}
				if sel, ok := n.Fun.(*ast.SelectorExpr); ok {
					if sn := c.info.Selections[sel]; sn != nil && sn.Kind() == types.MethodVal {
						if f, ok := sn.Obj().(*types.Func); ok && f.Pkg() != nil && (f.Pkg().Path() == "sync" || f.Pkg().Path() == "sync/atomic") {
							hot = true
						}
					}
				}
			}
			return true
		})
	}
	return hot, simple
}

func (c *ctx) instrumentCall(fc *fileCtx, call *ast.CallExpr) {
	fset := c.fset
	// Package-level functions.
	if path, name, sel := c.pkgFunc(call); sel != nil {
		full := path + "." + name
		switch full {
		case "hash/maphash.MakeSeed":
			id := c.site(fc, call.Pos(), "seed", c.text(call))
			fc.replace(fc.off(fset, call.Pos()), fc.off(fset, call.End()), fmt.Sprintf("%s.MakeSeed(%d)", alias, id))
			fc.keep[c.text(sel.X)+".MakeSeed"] = true
		case "maps.Keys", "maps.Values", "maps.All":
			if len(call.Args) == 1 {
				repl := map[string]string{"Keys": "MapKeysSeq", "Values": "MapValuesSeq", "All": "MapSeq2"}[name]
				id := c.site(fc, call.Pos(), "maps."+name, c.text(call.Args[0]))
				fc.replace(fc.off(fset, call.Pos()), fc.off(fset, call.Args[0].Pos()), alias+"."+repl+"(")
				fc.replace(fc.off(fset, call.Args[0].End()), fc.off(fset, call.End()), fmt.Sprintf(", %d)", id))
				fc.keep[c.text(sel.X)+".Clone[map[int]int]"] = true
			}
		case "time.Now", "time.Since", "time.After", "time.Sleep", "time.NewTimer", "time.Tick":
			c.rep.Uncontrolled = append(c.rep.Uncontrolled, fmt.Sprintf("%s: %s", fset.Position(call.Pos()), full))
		case "os.Getenv", "os.LookupEnv", "os.Environ":
			arg := ""
			if len(call.Args) > 0 {
				arg = c.text(call.Args[0])
				if tv, ok := c.info.Types[call.Args[0]]; ok && tv.Value != nil {
					arg = tv.Value.ExactString()
				}
			}
			c.rep.Uncontrolled = append(c.rep.Uncontrolled, fmt.Sprintf("%s: %s(%s) (fixed per process, recorded in the replay file)", fset.Position(call.Pos()), full, arg))
		default:
			if path == "math/rand" || path == "math/rand/v2" || path == "crypto/rand" {
				c.rep.Uncontrolled = append(c.rep.Uncontrolled, fmt.Sprintf("%s: %s", fset.Position(call.Pos()), full))
			}
			if path == "hash/maphash" && (name == "String" || name == "Bytes" || name == "Comparable") {
				c.rep.Uncontrolled = append(c.rep.Uncontrolled, fmt.Sprintf("%s: %s (result not masked)", fset.Position(call.Pos()), full))
			}
		}
		return
	}
	sel, ok := call.Fun.(*ast.SelectorExpr)
	if !ok {
		return
	}
	selection := c.info.Selections[sel]
	if selection == nil || selection.Kind() != types.MethodVal {
		return
	}
	recv := c.info.TypeOf(sel.X)
	name := sel.Sel.Name
	// reflect.Value iteration.
	if is, ptr := derefNamed(recv, "reflect", "Value"); is {
		repl := map[string]string{"MapRange": "MapRange", "MapKeys": "MapKeys", "Seq2": "ValueSeq2", "Seq": "ValueSeq"}[name]
		if repl != "" && len(call.Args) == 0 {
			id := c.site(fc, call.Pos(), "reflect."+name, c.text(sel.X))
			open := alias + "." + repl + "("
			if ptr {
				open += "*"
			}
			fc.insert(fc.off(fset, call.Pos()), open)
			fc.replace(fc.off(fset, sel.X.End()), fc.off(fset, call.End()), fmt.Sprintf(", %d)", id))
		}
		return
	}
	// (*maphash.Hash).Sum64
	if is, ptr := derefNamed(recv, "hash/maphash", "Hash"); is {
		if name == "Sum64" && len(call.Args) == 0 {
			id := c.site(fc, call.Pos(), "sum64", c.text(sel.X))
			open := alias + ".Sum64("
			if !ptr {
				open += "&"
			}
			fc.insert(fc.off(fset, call.Pos()), open)
			fc.replace(fc.off(fset, sel.X.End()), fc.off(fset, call.End()), fmt.Sprintf(", %d)", id))
		}
		return
	}
	// sync.Map memo tables.
	if is, ptr := derefNamed(recv, "sync", "Map"); is {
		if id, ok := sel.X.(*ast.Ident); ok && name == "Load" && len(call.Args) == 1 && memoNames[id.Name] && !ptr {
			if v, ok := c.info.Uses[id].(*types.Var); ok && v.Parent() == c.pkg.Scope() {
				sid := c.site(fc, call.Pos(), "memo-load", id.Name)
				fc.insert(fc.off(fset, call.Pos()), alias+".SyncMapLoad(&")
				fc.replace(fc.off(fset, sel.X.End()), fc.off(fset, call.Args[0].Pos()), ", ")
				fc.insert(fc.off(fset, call.Args[0].End()), fmt.Sprintf(", %d", sid))
			}
		}
		if name == "Range" {
			c.rep.Uncontrolled = append(c.rep.Uncontrolled, fmt.Sprintf("%s: sync.Map.Range (order not controlled)", fset.Position(call.Pos())))
		}
		return
	}
	// Blocking primitives (T4).
	for _, m := range []struct{ typ, meth, repl string }{
		{"Mutex", "Lock", "Lock"}, {"RWMutex", "Lock", "RWLock"}, {"RWMutex", "RLock", "RWRLock"},
	} {
		if is, ptr := derefNamed(recv, "sync", m.typ); is && name == m.meth && len(call.Args) == 0 {
			id := c.site(fc, call.Pos(), "lock", c.text(sel.X))
			open := alias + "." + m.repl + "("
			if !ptr {
				open += "&"
			}
			fc.insert(fc.off(fset, call.Pos()), open)
			fc.replace(fc.off(fset, sel.X.End()), fc.off(fset, call.End()), fmt.Sprintf(", %d)", id))
			return
		}
	}
	if is, ptr := derefNamed(recv, "sync", "Once"); is && name == "Do" && len(call.Args) == 1 {
		id := c.site(fc, call.Pos(), "once", c.text(sel.X))
		open := alias + ".OnceDo("
		if !ptr {
			open += "&"
		}
		fc.insert(fc.off(fset, call.Pos()), open)
		fc.replace(fc.off(fset, sel.X.End()), fc.off(fset, call.Args[0].Pos()), ", ")
		fc.insert(fc.off(fset, call.Args[0].End()), fmt.Sprintf(", %d", id))
		return
	}
	for _, t := range []string{"WaitGroup", "Cond", "Pool"} {
		if is, _ := derefNamed(recv, "sync", t); is {
			c.rep.Uncontrolled = append(c.rep.Uncontrolled, fmt.Sprintf("%s: sync.%s.%s (unsupported under the scheduler)", fset.Position(call.Pos()), t, name))
		}
	}
}

func applyEdits(src []byte, edits []edit) []byte {
	sort.SliceStable(edits, func(i, j int) bool {
		if edits[i].pos != edits[j].pos {
			return edits[i].pos < edits[j].pos
		}
		// At the same offset: pure insertions that close something (", N)")
		// come before ones that open; we keep creation order, which is
		// pre-order of the AST walk, except that closers at X.End() of an
		// inner node were created before closers of the outer one — which is
		// what nesting needs.
		return edits[i].seq < edits[j].seq
	})
	var out bytes.Buffer
	at := 0
	for _, e := range edits {
		if e.pos < at {
			// overlapping replacement: should not happen; keep the first.
			continue
		}
		out.Write(src[at:e.pos])
		out.WriteString(e.text)
		at = e.end
	}
	out.Write(src[at:])
	return out.Bytes()
}

func copyFile(src, dst string) error {
	b, err := os.ReadFile(src)
	if err != nil {
		return err
	}
	if err := os.MkdirAll(filepath.Dir(dst), 0o755); err != nil {
		return err
	}
	return os.WriteFile(dst, b, 0o644)
}

// Run instruments opt.Src into opt.Dst.
func Run(opt Options) (*Report, error) {
	rep := &Report{Kinds: map[string]int{}}
	pkgDir := filepath.Join(opt.Src, "jsonschema")
	if err := os.MkdirAll(filepath.Join(opt.Dst, "jsonschema"), 0o755); err != nil {
		return nil, err
	}
	// go.mod / go.sum
	mod, err := os.ReadFile(filepath.Join(opt.Src, "go.mod"))
	if err != nil {
		return nil, err
	}
	mod = append(mod, []byte("\nrequire "+simrtImport+" v0.0.0\n")...)
	if err := os.WriteFile(filepath.Join(opt.Dst, "go.mod"), mod, 0o644); err != nil {
		return nil, err
	}
	if _, err := os.Stat(filepath.Join(opt.Src, "go.sum")); err == nil {
		copyFile(filepath.Join(opt.Src, "go.sum"), filepath.Join(opt.Dst, "go.sum"))
	}
	// Everything else under the module that is not in jsonschema/ is copied
	// verbatim (other packages are not instrumented; there are none today).
	err = filepath.WalkDir(opt.Src, func(p string, d fs.DirEntry, err error) error {
		if err != nil {
			return err
		}
		rel, _ := filepath.Rel(opt.Src, p)
		if d.IsDir() {
			if d.Name() == ".git" {
				return filepath.SkipDir
			}
			if rel == "jsonschema" {
				return filepath.SkipDir
			}
			return nil
		}
		if rel == "go.mod" || rel == "go.sum" {
			return nil
		}
		if strings.HasSuffix(p, ".go") && !strings.HasSuffix(p, "_test.go") {
			return copyFile(p, filepath.Join(opt.Dst, rel))
		}
		return nil
	})
	if err != nil {
		return nil, err
	}

	fset := token.NewFileSet()
	bctx := build.Default
	bctx.BuildTags = append(bctx.BuildTags, "verif", "purego")
	ents, err := os.ReadDir(pkgDir)
	if err != nil {
		return nil, err
	}
	c := &ctx{fset: fset, rep: rep, opt: opt}
	var astFiles []*ast.File
	for _, e := range ents {
		name := e.Name()
		full := filepath.Join(pkgDir, name)
		if e.IsDir() {
			if opt.WithTests {
				if err := copyTree(full, filepath.Join(opt.Dst, "jsonschema", name)); err != nil {
					return nil, err
				}
			}
			continue
		}
		if !strings.HasSuffix(name, ".go") {
			if opt.WithTests {
				copyFile(full, filepath.Join(opt.Dst, "jsonschema", name))
			}
			continue
		}
		if strings.HasPrefix(name, "zz_verif_") {
			return nil, fmt.Errorf("source tree already contains generated file %s", name)
		}
		if strings.HasSuffix(name, "_test.go") {
			if opt.WithTests {
				copyFile(full, filepath.Join(opt.Dst, "jsonschema", name))
			}
			continue
		}
		if ok, err := bctx.MatchFile(pkgDir, name); err != nil || !ok {
			// excluded by build constraints: copy verbatim
			copyFile(full, filepath.Join(opt.Dst, "jsonschema", name))
			continue
		}
		src, err := os.ReadFile(full)
		if err != nil {
			return nil, err
		}
		f, err := parser.ParseFile(fset, full, src, parser.ParseComments|parser.SkipObjectResolution)
		if err != nil {
			return nil, fmt.Errorf("parse: %w", err)
		}
		c.files = append(c.files, &fileCtx{name: name, src: src, file: f, keep: map[string]bool{}})
		astFiles = append(astFiles, f)
	}
	if len(astFiles) == 0 {
		return nil, fmt.Errorf("no Go files in %s", pkgDir)
	}
	c.info = &types.Info{
		Types:      map[ast.Expr]types.TypeAndValue{},
		Uses:       map[*ast.Ident]types.Object{},
		Defs:       map[*ast.Ident]types.Object{},
		Selections: map[*ast.SelectorExpr]*types.Selection{},
	}
	var typeErrs []string
	conf := types.Config{
		Importer: importer.ForCompiler(fset, "source", nil),
		Error: func(err error) {
			if len(typeErrs) < 5 {
				typeErrs = append(typeErrs, err.Error())
			}
		},
	}
	pkg, _ := conf.Check("github.com/google/jsonschema-go/jsonschema", fset, astFiles, c.info)
	if len(typeErrs) > 0 {
		return nil, fmt.Errorf("type-check: %s", strings.Join(typeErrs, "; "))
	}
	c.pkg = pkg

	for _, fc := range c.files {
		c.instrumentFile(fc)
		// import + keepalives
		pe := fc.off(fset, fc.file.Name.End())
		fc.insert(pe, fmt.Sprintf("; import %s %q", alias, simrtImport))
		out := applyEdits(fc.src, fc.edits)
		var tail bytes.Buffer
		fmt.Fprintf(&tail, "\nvar _ = %s.Yield\n", alias)
		keys := make([]string, 0, len(fc.keep))
		for k := range fc.keep {
			keys = append(keys, k)
		}
		sort.Strings(keys)
		for _, k := range keys {
			fmt.Fprintf(&tail, "\nvar _ = %s\n", k)
		}
		out = append(out, tail.Bytes()...)
		if err := os.WriteFile(filepath.Join(opt.Dst, "jsonschema", fc.name), out, 0o644); err != nil {
			return nil, err
		}
		rep.Files++
	}
	if len(rep.Sites) > 8192 {
		return nil, fmt.Errorf("too many sites: %d", len(rep.Sites))
	}
	if err := c.genHelpers(); err != nil {
		return nil, err
	}
	sort.Strings(rep.Uncontrolled)
	return rep, nil
}

func copyTree(src, dst string) error {
	return filepath.WalkDir(src, func(p string, d fs.DirEntry, err error) error {
		if err != nil {
			return err
		}
		rel, _ := filepath.Rel(src, p)
		if d.IsDir() {
			return os.MkdirAll(filepath.Join(dst, rel), 0o755)
		}
		return copyFile(p, filepath.Join(dst, rel))
	})
}

func (c *ctx) genHelpers() error {
	var b bytes.Buffer
	b.WriteString("//go:build verif\n\n// Code generated by simgen. DO NOT EDIT.\n\npackage jsonschema\n\n")
	imports := map[string]bool{}
	var body bytes.Buffer
	fmt.Fprintf(&body, "func init() {\n\t%s.RegisterSites([]string{\n", alias)
	for _, s := range c.rep.Sites {
		fmt.Fprintf(&body, "\t\t%q,\n", s)
	}
	body.WriteString("\t})\n")
	fmt.Fprintf(&body, "\t%s.UncontrolledSources = []string{\n", alias)
	for _, s := range c.rep.Uncontrolled {
		fmt.Fprintf(&body, "\t\t%q,\n", s)
	}
	body.WriteString("\t}\n")
	scope := c.pkg.Scope()
	// hashValue(h *maphash.Hash, v reflect.Value)
	if fn, ok := scope.Lookup("hashValue").(*types.Func); ok {
		sig := fn.Type().(*types.Signature)
		if sig.Params().Len() == 2 && sig.Results().Len() == 0 && sig.TypeParams() == nil {
			if is, ptr := derefNamed(sig.Params().At(0).Type(), "hash/maphash", "Hash"); is && ptr &&
				isNamed(sig.Params().At(1).Type(), "reflect", "Value") {
				imports["hash/maphash"] = true
				imports["reflect"] = true
				fmt.Fprintf(&body, "\t%s.HashValue = func(h *maphash.Hash, v reflect.Value) { hashValue(h, v) }\n", alias)
				c.rep.Helpers = append(c.rep.Helpers, "HashValue")
			}
		}
	}
	// package-level sync.Map variables -> ResetCaches
	var maps []string
	for _, name := range scope.Names() {
		if v, ok := scope.Lookup(name).(*types.Var); ok && isNamed(v.Type(), "sync", "Map") {
			maps = append(maps, name)
		}
	}
	if len(maps) > 0 {
		fmt.Fprintf(&body, "\t%s.ResetCaches = func() {\n", alias)
		for _, m := range maps {
			fmt.Fprintf(&body, "\t\t%s.Clear()\n", m)
		}
		body.WriteString("\t}\n")
		c.rep.Helpers = append(c.rep.Helpers, "ResetCaches("+strings.Join(maps, ",")+")")
		c.rep.MemoTables = maps
	}
	body.WriteString("}\n")
	b.WriteString("import (\n")
	fmt.Fprintf(&b, "\t%s %q\n", alias, simrtImport)
	var imps []string
	for k := range imports {
		imps = append(imps, k)
	}
	sort.Strings(imps)
	for _, k := range imps {
		fmt.Fprintf(&b, "\t%q\n", k)
	}
	b.WriteString(")\n\n")
	b.Write(body.Bytes())
	return os.WriteFile(filepath.Join(c.opt.Dst, "jsonschema", "zz_verif_gen.go"), b.Bytes(), 0o644)
}
